#[derive(Clone)]
pub struct Rng(u64);

impl Rng {
    pub fn new(seed: u64) -> Self {
        let mut r = Rng(seed ^ 0x9E37_79B9_7F4A_7C15);
        r.next();
        r
    }
    pub fn from_str(seed: u64, s: &str) -> Self {
        let mut h: u64 = 0xcbf2_9ce4_8422_2325 ^ seed;
        for b in s.bytes() {
            h ^= b as u64;
            h = h.wrapping_mul(0x0000_0100_0000_01B3);
        }
        Rng::new(h)
    }
    /// splitmix64
    pub fn next(&mut self) -> u64 {
        self.0 = self.0.wrapping_add(0x9E37_79B9_7F4A_7C15);
        let mut z = self.0;
        z = (z ^ (z >> 30)).wrapping_mul(0xBF58_476D_1CE4_E5B9);
        z = (z ^ (z >> 27)).wrapping_mul(0x94D0_49BB_1331_11EB);
        z ^ (z >> 31)
    }
    pub fn next128(&mut self) -> u128 {
        ((self.next() as u128) << 64) | self.next() as u128
    }
    pub fn below(&mut self, n: u64) -> u64 {
        if n == 0 {
            0
        } else {
            self.next() % n
        }
    }
    /// random value with a random density of ones (uniform, sparse or dense)
    pub fn bits128(&mut self) -> u128 {
        match self.below(4) {
            0 => self.next128() & self.next128(),
            1 => self.next128() | self.next128(),
            _ => self.next128(),
        }
    }
}
