use crate::desc::{CaseDesc, EnumDesc};
use crate::obs::{ConstObs, Obs};

/// Glue over one generated bitfield type. Every method is one line over the real generated API.
pub trait Subject {
    fn desc(&self) -> &'static CaseDesc;
    /// `T::new_with_raw_value(raw)`; `raw` is always below 2^N
    fn reset(&mut self, raw: u128);
    /// `raw_value()` widened
    fn raw(&self) -> u128;
    /// direct peek at the storage integer
    fn storage(&self) -> u128;
    /// `self = T::new_with_raw_value(self.raw_value())`
    fn rewrap(&mut self);
    fn get(&self, f: usize, i: usize) -> Obs;
    /// `let n = self.with_f(i, v); recv = storage(self); self = n; recv`
    fn with(&mut self, f: usize, i: usize, v: u128) -> u128;
    fn set(&mut self, f: usize, i: usize, v: u128);
    /// `T::builder().with_..(..)...build()`; false when no builder is offered
    fn build(&mut self, args: &[Vec<u128>]) -> bool;
    fn debug(&self, pretty: bool) -> Option<String>;
    /// Debug text of a plain `#[derive(Debug)]` struct with the same name/fields filled from `vals`
    fn shadow_debug(&self, vals: &[Obs], pretty: bool) -> Option<String>;
    fn consts(&self) -> ConstObs;
}

/// Glue over one generated bitenum.
pub trait EnumSubject {
    fn desc(&self) -> &'static EnumDesc;
    /// `E::new_with_raw_value(x)`: Variant(ordinal) or Err(x)
    fn from_raw(&self, x: u128) -> Obs;
    /// `variant.raw_value()` with the storage type pinned by annotation
    fn to_raw(&self, ord: u32) -> u128;
}

/// Reads the storage integer of a generated bitfield (`#[repr(C)] struct { raw_value: S }`).
pub fn peek<T: Copy, S: Copy + Into<u128>>(t: &T) -> u128 {
    assert_eq!(core::mem::size_of::<T>(), core::mem::size_of::<S>(), "size of generated type differs from its storage integer");
    // SAFETY: sizes are equal (checked above), both types are Copy, S is a plain integer for which
    // every bit pattern is valid, and T consists of exactly one such integer.
    let s: S = unsafe { core::mem::transmute_copy::<T, S>(t) };
    s.into()
}

/// Two's-complement interpretation of the low `n` bits of `pattern`, computed arithmetically.
pub const fn to_signed(pattern: u128, n: u32) -> i128 {
    if n >= 128 {
        if pattern >> 127 == 1 {
            // pattern - 2^128, computed without overflow
            let low = pattern & (u128::MAX >> 1);
            i128::MIN + low as i128
        } else {
            pattern as i128
        }
    } else {
        let p = pattern & ((1u128 << n) - 1);
        if (p >> (n - 1)) & 1 == 1 {
            p as i128 - (1i128 << n)
        } else {
            p as i128
        }
    }
}
