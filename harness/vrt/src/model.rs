//! Reference register: an array of booleans. Shares no shift/mask expression with the macro.

use crate::desc::{FieldDesc, Kind};
use crate::obs::Obs;
use crate::subject::to_signed;

pub fn mask(w: u32) -> u128 {
    if w >= 128 {
        u128::MAX
    } else {
        (1u128 << w) - 1
    }
}

#[derive(Clone, PartialEq, Eq)]
pub struct RefReg {
    pub bits: [bool; 128],
    pub width: u32,
}

impl RefReg {
    pub fn from_raw(raw: u128, width: u32) -> Self {
        let mut bits = [false; 128];
        let mut r = raw;
        for b in bits.iter_mut() {
            *b = r % 2 == 1;
            r /= 2;
        }
        RefReg { bits, width }
    }
    pub fn to_raw(&self) -> u128 {
        let mut v: u128 = 0;
        for k in (0..128).rev() {
            v = v.wrapping_add(v);
            if self.bits[k] {
                v += 1;
            }
        }
        v
    }
    /// gathers the bits at `pos` (least significant first)
    pub fn read(&self, pos: &[u32]) -> u128 {
        let mut v: u128 = 0;
        for &p in pos.iter().rev() {
            v = v.wrapping_add(v);
            if self.bits[p as usize] {
                v += 1;
            }
        }
        v
    }
    /// scatters the low bits of `pattern` to `pos`
    pub fn write(&mut self, pos: &[u32], pattern: u128) {
        let mut p = pattern;
        for &q in pos {
            self.bits[q as usize] = p % 2 == 1;
            p /= 2;
        }
    }
}

/// What the getter of `fd` must return when the field's bits are `bits`.
pub fn expect_obs(fd: &FieldDesc, bits: u128) -> Obs {
    match fd.kind {
        Kind::Bool => Obs::Bool(bits == 1),
        Kind::UInt => Obs::Bits(bits),
        Kind::SInt => Obs::Signed(to_signed(bits, fd.width)),
        Kind::Nested => Obs::Nested(bits),
        Kind::Enum | Kind::OptEnum => {
            let t = fd.table.expect("enum field without table");
            for (ord, d) in t.discrs.iter().enumerate() {
                if *d == bits {
                    return Obs::Variant(ord as u32);
                }
            }
            Obs::Err(bits)
        }
    }
}
