//! Counters, violations, digests and a minimal JSON writer (no dependencies).

use std::collections::BTreeMap;

pub fn jstr(s: &str) -> String {
    let mut o = String::with_capacity(s.len() + 2);
    o.push('"');
    for c in s.chars() {
        match c {
            '"' => o.push_str("\\\""),
            '\\' => o.push_str("\\\\"),
            '\n' => o.push_str("\\n"),
            '\r' => o.push_str("\\r"),
            '\t' => o.push_str("\\t"),
            c if (c as u32) < 0x20 => o.push_str(&format!("\\u{:04x}", c as u32)),
            c => o.push(c),
        }
    }
    o.push('"');
    o
}

/// JSON object builder
pub struct J(String, bool);
impl J {
    pub fn obj() -> J {
        J(String::from("{"), true)
    }
    fn key(&mut self, k: &str) {
        if !self.1 {
            self.0.push(',');
        }
        self.1 = false;
        self.0.push_str(&jstr(k));
        self.0.push(':');
    }
    pub fn s(mut self, k: &str, v: &str) -> J {
        self.key(k);
        self.0.push_str(&jstr(v));
        self
    }
    pub fn n(mut self, k: &str, v: u64) -> J {
        self.key(k);
        self.0.push_str(&v.to_string());
        self
    }
    pub fn b(mut self, k: &str, v: bool) -> J {
        self.key(k);
        self.0.push_str(if v { "true" } else { "false" });
        self
    }
    pub fn hex(self, k: &str, v: u128) -> J {
        let t = format!("{:#x}", v);
        self.s(k, &t)
    }
    pub fn raw(mut self, k: &str, json: &str) -> J {
        self.key(k);
        self.0.push_str(json);
        self
    }
    pub fn arr(self, k: &str, items: &[String]) -> J {
        let t = format!("[{}]", items.join(","));
        self.raw(k, &t)
    }
    pub fn strs(self, k: &str, items: &[String]) -> J {
        let v: Vec<String> = items.iter().map(|s| jstr(s)).collect();
        self.arr(k, &v)
    }
    pub fn map(self, k: &str, m: &BTreeMap<String, u64>) -> J {
        let v: Vec<String> = m.iter().map(|(k, v)| format!("{}:{}", jstr(k), v)).collect();
        let t = format!("{{{}}}", v.join(","));
        self.raw(k, &t)
    }
    pub fn end(mut self) -> String {
        self.0.push('}');
        self.0
    }
}

#[derive(Clone, Copy, Default, PartialEq, Eq)]
pub struct Digest(pub u64, pub u64);

impl Digest {
    pub fn new() -> Self {
        Digest(0xcbf2_9ce4_8422_2325, 0x6c62_272e_07bb_0142)
    }
    #[inline]
    pub fn fold64(&mut self, x: u64) {
        self.0 = (self.0 ^ x).wrapping_mul(0x0000_0100_0000_01B3);
        self.1 = (self.1.rotate_left(29) ^ x).wrapping_mul(0x9E37_79B9_7F4A_7C15).wrapping_add(0x1234_5678_9abc_def1);
    }
    #[inline]
    pub fn fold128(&mut self, x: u128) {
        self.fold64(x as u64);
        self.fold64((x >> 64) as u64);
    }
    pub fn hex(&self) -> String {
        format!("{:016x}{:016x}", self.0, self.1)
    }
}

#[derive(Clone, Copy, PartialEq, Eq, Debug)]
pub enum VKind {
    /// result/state differs from the reference register
    Model,
    /// a panic where none is allowed
    UnexpectedPanic,
    /// no panic for an out-of-range index
    MissingPanic,
    /// anything else stated by a property (receiver changed, forms differ, hidden state, ...)
    Invariant,
}

impl VKind {
    pub fn name(self) -> &'static str {
        match self {
            VKind::Model => "model-mismatch",
            VKind::UnexpectedPanic => "unexpected-panic",
            VKind::MissingPanic => "missing-panic",
            VKind::Invariant => "invariant",
        }
    }
}

#[derive(Default)]
pub struct Stats {
    pub evaluations: u64,
    pub nontrivial: u64,
    pub cases: u64,
    pub fields: u64,
    pub expected_panics: u64,
    pub unexpected_panics: u64,
    pub model_mismatches: u64,
    pub violation_count: u64,
    pub violations: Vec<String>,
    pub samples: Vec<String>,
    pub shapes: BTreeMap<String, u64>,
    pub counters: BTreeMap<String, u64>,
    pub exhaustive_spaces: BTreeMap<String, u64>,
    pub case_digests: Vec<(String, Digest, u64)>,
    pub field_bits_total: u64,
    pub field_bits_toggled: u64,
    pub outside_bits_total: u64,
    pub outside_bits_toggled: u64,
    pub states_seen: u64,
}

impl Stats {
    pub fn count(&mut self, k: &str, n: u64) {
        *self.counters.entry(k.to_string()).or_insert(0) += n;
    }
    pub fn shape(&mut self, k: String) {
        *self.shapes.entry(k).or_insert(0) += 1;
    }
    pub fn merge(&mut self, o: Stats) {
        self.evaluations += o.evaluations;
        self.nontrivial += o.nontrivial;
        self.cases += o.cases;
        self.fields += o.fields;
        self.expected_panics += o.expected_panics;
        self.unexpected_panics += o.unexpected_panics;
        self.model_mismatches += o.model_mismatches;
        self.violation_count += o.violation_count;
        for v in o.violations {
            if self.violations.len() < 64 {
                self.violations.push(v);
            }
        }
        for v in o.samples {
            if self.samples.len() < 12 {
                self.samples.push(v);
            }
        }
        for (k, v) in o.shapes {
            *self.shapes.entry(k).or_insert(0) += v;
        }
        for (k, v) in o.counters {
            *self.counters.entry(k).or_insert(0) += v;
        }
        for (k, v) in o.exhaustive_spaces {
            *self.exhaustive_spaces.entry(k).or_insert(0) += v;
        }
        self.case_digests.extend(o.case_digests);
        self.field_bits_total += o.field_bits_total;
        self.field_bits_toggled += o.field_bits_toggled;
        self.outside_bits_total += o.outside_bits_total;
        self.outside_bits_toggled += o.outside_bits_toggled;
        self.states_seen += o.states_seen;
    }
    pub fn to_json(&mut self, with_case_digests: bool) -> String {
        self.case_digests.sort_by(|a, b| a.0.cmp(&b.0));
        // order-independent combination of the per-case digests
        let mut all = Digest::new();
        for (id, d, _) in &self.case_digests {
            for b in id.bytes() {
                all.fold64(b as u64);
            }
            all.fold64(d.0);
            all.fold64(d.1);
        }
        let mut j = J::obj()
            .n("evaluations", self.evaluations)
            .n("nontrivial", self.nontrivial)
            .n("cases", self.cases)
            .n("fields", self.fields)
            .n("expected_panics", self.expected_panics)
            .n("unexpected_panics", self.unexpected_panics)
            .n("model_mismatches", self.model_mismatches)
            .n("violation_count", self.violation_count)
            .arr("violations", &self.violations)
            .arr("samples", &self.samples)
            .map("shapes", &self.shapes)
            .map("counters", &self.counters)
            .map("exhaustive_spaces", &self.exhaustive_spaces)
            .n("field_bits_total", self.field_bits_total)
            .n("field_bits_toggled", self.field_bits_toggled)
            .n("outside_bits_total", self.outside_bits_total)
            .n("outside_bits_toggled", self.outside_bits_toggled)
            .n("states_seen", self.states_seen)
            .s("digest", &all.hex());
        if with_case_digests {
            let v: Vec<String> = self
                .case_digests
                .iter()
                .map(|(id, d, n)| format!("[{},{},{}]", jstr(id), jstr(&d.hex()), n))
                .collect();
            j = j.arr("case_digests", &v);
        }
        j.end()
    }
}
