#[derive(Clone, Debug, PartialEq, Eq)]
pub enum Obs {
    Bool(bool),
    Bits(u128),
    Signed(i128),
    /// variant ordinal (plain enum getter, or `Ok(variant)` for Option<E> fields)
    Variant(u32),
    /// `Err(raw)` of an Option<E> field / non-exhaustive enum conversion
    Err(u128),
    /// raw value of a nested bitfield
    Nested(u128),
    /// the operation panicked (message)
    Panic(String),
    /// the subject does not offer the operation
    Absent,
}

impl Obs {
    pub fn fold(&self) -> (u64, u128) {
        match self {
            Obs::Bool(b) => (1, *b as u128),
            Obs::Bits(v) => (2, *v),
            Obs::Signed(v) => (3, *v as u128),
            Obs::Variant(v) => (4, *v as u128),
            Obs::Err(v) => (5, *v),
            Obs::Nested(v) => (6, *v),
            // the message is deliberately not folded: only the fact of panicking is compared across profiles
            Obs::Panic(_) => (7, 0),
            Obs::Absent => (8, 0),
        }
    }
    pub fn show(&self) -> String {
        match self {
            Obs::Bool(b) => format!("{}", b),
            Obs::Bits(v) => format!("{:#x}", v),
            Obs::Signed(v) => format!("{}", v),
            Obs::Variant(v) => format!("variant#{}", v),
            Obs::Err(v) => format!("Err({:#x})", v),
            Obs::Nested(v) => format!("nested({:#x})", v),
            Obs::Panic(m) => format!("panic: {}", m),
            Obs::Absent => "absent".to_string(),
        }
    }
}

#[derive(Clone, Debug, Default)]
pub struct ConstObs {
    pub zero: u128,
    pub default_const: Option<u128>,
    pub default_trait: Option<u128>,
    pub new_fn: Option<u128>,
    pub size: usize,
    pub align: usize,
    pub storage_size: usize,
    pub storage_align: usize,
}

impl Obs {
    pub fn as_bool(&self) -> bool {
        match self {
            Obs::Bool(b) => *b,
            _ => panic!("glue: expected Bool"),
        }
    }
    pub fn as_bits(&self) -> u128 {
        match self {
            Obs::Bits(v) => *v,
            _ => panic!("glue: expected Bits"),
        }
    }
    pub fn as_signed(&self) -> i128 {
        match self {
            Obs::Signed(v) => *v,
            _ => panic!("glue: expected Signed"),
        }
    }
    pub fn as_variant(&self) -> u128 {
        match self {
            Obs::Variant(v) => *v as u128,
            _ => panic!("glue: expected Variant"),
        }
    }
    pub fn as_nested(&self) -> u128 {
        match self {
            Obs::Nested(v) => *v,
            _ => panic!("glue: expected Nested"),
        }
    }
}
