//! Command-line driver shared by every generated runner binary.

use crate::desc::{CaseDesc, FieldDesc, Kind};
use crate::gen::Cfg;
use crate::guard;
use crate::mon::{self, Ctx, HistOpts};
use crate::stats::{Stats, J};
use crate::subject::{EnumSubject, Subject};

pub type SubjectCtor = fn() -> Box<dyn Subject>;
pub type EnumCtor = fn() -> Box<dyn EnumSubject>;

pub struct Registry {
    pub subjects: Vec<SubjectCtor>,
    pub enums: Vec<EnumCtor>,
}

fn arg(args: &[String], key: &str) -> Option<String> {
    args.iter().position(|a| a == key).and_then(|p| args.get(p + 1).cloned())
}

fn contiguous(_: &CaseDesc, f: &FieldDesc) -> bool {
    !f.is_list()
}
fn list(_: &CaseDesc, f: &FieldDesc) -> bool {
    f.is_list()
}
fn signed(_: &CaseDesc, f: &FieldDesc) -> bool {
    f.kind == Kind::SInt
}
fn custom(_: &CaseDesc, f: &FieldDesc) -> bool {
    matches!(f.kind, Kind::Enum | Kind::OptEnum | Kind::Nested)
}
fn any(_: &CaseDesc, _: &FieldDesc) -> bool {
    true
}

pub fn run_subject(prop: &str, s: &mut dyn Subject, ctx: &mut Ctx) {
    let d = s.desc();
    match prop {
        "C01" => mon::mon_get(s, ctx, &contiguous),
        "C02" => mon::mon_put(s, ctx, &any),
        "C03" => mon::mon_array(s, ctx, &any),
        "C04" => {
            mon::mon_get(s, ctx, &list);
            mon::mon_put(s, ctx, &list);
        }
        "C05" => {
            mon::mon_get(s, ctx, &signed);
            mon::mon_put(s, ctx, &signed);
            mon::mon_array(s, ctx, &signed);
        }
        "C08" => {
            mon::mon_get(s, ctx, &custom);
            mon::mon_put(s, ctx, &custom);
            mon::mon_array(s, ctx, &custom);
        }
        "C06" => mon::mon_consts(s, ctx),
        "C11" => {
            if d.base_width != d.storage_width {
                mon::mon_hist(s, ctx, &HistOpts { register_invariant: true, commutation: false });
                if d.base_width <= 10 {
                    mon::mon_put(s, ctx, &any);
                }
            }
        }
        "C12" | "C17" => {
            mon::mon_hist(s, ctx, &HistOpts { register_invariant: false, commutation: true });
            if d.base_width <= 8 && prop == "C12" {
                // full single-step transition relation on small bases
                mon::mon_put(s, ctx, &any);
            }
        }
        "C13" => mon::mon_builder(s, ctx),
        "C19" => mon::mon_debug(s, ctx),
        "C16" => {
            mon::mon_get(s, ctx, &any);
            mon::mon_put(s, ctx, &any);
            mon::mon_array(s, ctx, &any);
            mon::mon_hist(s, ctx, &HistOpts { register_invariant: d.base_width != d.storage_width, commutation: true });
            mon::mon_builder(s, ctx);
            mon::mon_consts(s, ctx);
            mon::mon_debug(s, ctx);
        }
        _ => {}
    }
}

pub fn main(reg: Registry) {
    let args: Vec<String> = std::env::args().collect();
    let prop = arg(&args, "--prop").unwrap_or_else(|| "C01".into());
    let tier = arg(&args, "--tier").unwrap_or_else(|| "quick".into());
    let seed: u64 = arg(&args, "--seed").and_then(|s| s.parse().ok()).unwrap_or(0);
    let profile = arg(&args, "--profile").unwrap_or_else(|| "unknown".into());
    let out = arg(&args, "--out");
    let threads: usize = arg(&args, "--threads").and_then(|s| s.parse().ok()).unwrap_or(16).max(1);
    let mut cfg = if tier == "thorough" { Cfg::thorough(seed) } else { Cfg::quick(seed) };
    cfg.only_case = arg(&args, "--only-case");
    cfg.trace = args.iter().any(|a| a == "--trace");
    cfg.judge_panics_only = prop == "C16";
    if let Some(v) = arg(&args, "--hist-count").and_then(|s| s.parse().ok()) {
        cfg.hist_count = v;
    }
    if let Some(v) = arg(&args, "--hist-len").and_then(|s| s.parse().ok()) {
        cfg.hist_len = v;
    }
    if let Some(v) = arg(&args, "--long-hist-len").and_then(|s| s.parse().ok()) {
        cfg.long_hist_len = v;
    }
    if let Some(v) = arg(&args, "--n-rand-raw").and_then(|s| s.parse().ok()) {
        cfg.n_rand_raw = v;
    }
    if let Some(v) = arg(&args, "--n-rand-val").and_then(|s| s.parse().ok()) {
        cfg.n_rand_val = v;
    }
    if let Some(v) = arg(&args, "--exh-raw-bits").and_then(|s| s.parse().ok()) {
        cfg.exh_raw_bits = v;
    }
    if let Some(v) = arg(&args, "--exh-val-bits").and_then(|s| s.parse().ok()) {
        cfg.exh_val_bits = v;
    }
    if let Some(v) = arg(&args, "--exh-pair-bits").and_then(|s| s.parse().ok()) {
        cfg.exh_pair_bits = v;
    }
    if args.iter().any(|a| a == "--miri-workload") {
        // reduced boundary workload for the interpreter (about 10-15 ms per monitored operation)
        cfg.exh_raw_bits = 3;
        cfg.exh_val_bits = 2;
        cfg.exh_pair_bits = 5;
        cfg.n_rand_raw = 2;
        cfg.n_rand_val = 2;
        cfg.n_twin_raws = 0;
        cfg.hist_count = 2;
        cfg.hist_len = 6;
        cfg.long_hist_len = 12;
        cfg.tiny = true;
    }
    let (slice_k, slice_n): (usize, usize) = match arg(&args, "--slice") {
        Some(s) => {
            let mut it = s.split('/');
            (it.next().and_then(|x| x.parse().ok()).unwrap_or(0), it.next().and_then(|x| x.parse().ok()).unwrap_or(1).max(1))
        }
        None => (0, 1),
    };
    if args.iter().any(|a| a == "--list") {
        for c in &reg.subjects {
            println!("{}", c().desc().id);
        }
        for c in &reg.enums {
            println!("{}", c().desc().id);
        }
        return;
    }
    guard::install();
    let threads = if cfg.trace { 1 } else { threads };
    let n_sub = reg.subjects.len();
    let n_enum = reg.enums.len();
    let subjects = std::sync::Arc::new(reg.subjects);
    let enums = std::sync::Arc::new(reg.enums);
    let t0 = std::time::Instant::now();
    let mut handles = Vec::new();
    for t in 0..threads {
        let subjects = subjects.clone();
        let enums = enums.clone();
        let cfg = cfg.clone();
        let prop = prop.clone();
        let profile = profile.clone();
        handles.push(
            std::thread::Builder::new()
                .stack_size(64 << 20)
                .spawn(move || {
                    let mut ctx = Ctx::new(&cfg, &prop, &profile);
                    let mut k = t;
                    while k < subjects.len() {
                        if k % slice_n != slice_k {
                            k += threads;
                            continue;
                        }
                        let mut s = subjects[k]();
                        k += threads;
                        let id = s.desc().id;
                        if let Some(only) = &cfg.only_case {
                            if only != id {
                                continue;
                            }
                        }
                        ctx.begin_case();
                        run_subject(&prop, s.as_mut(), &mut ctx);
                        ctx.end_case(id);
                    }
                    if matches!(prop.as_str(), "C07" | "C10" | "C16") {
                        let mut k = t;
                        while k < enums.len() {
                            if k % slice_n != slice_k {
                                k += threads;
                                continue;
                            }
                            let e = enums[k]();
                            k += threads;
                            let id = e.desc().id;
                            if let Some(only) = &cfg.only_case {
                                if only != id {
                                    continue;
                                }
                            }
                            ctx.begin_case();
                            mon::mon_enum(e.as_ref(), &mut ctx);
                            ctx.end_case(id);
                        }
                    }
                    ctx.st
                })
                .unwrap(),
        );
    }
    let mut total = Stats::default();
    let mut crashed = 0;
    for h in handles {
        match h.join() {
            Ok(st) => total.merge(st),
            Err(_) => crashed += 1,
        }
    }
    let body = total.to_json(true);
    let json = J::obj()
        .s("prop", &prop)
        .s("tier", &tier)
        .n("seed", seed)
        .s("profile", &profile)
        .n("registered_subjects", n_sub as u64)
        .n("registered_enums", n_enum as u64)
        .n("worker_threads", threads as u64)
        .n("worker_threads_crashed", crashed)
        .raw("wall_ms", &format!("{}", t0.elapsed().as_millis()))
        .raw("stats", &body)
        .end();
    match out {
        Some(p) => std::fs::write(&p, json).expect("cannot write report"),
        None => println!("{}", json),
    }
}
