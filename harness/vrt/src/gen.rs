//! Hostile input generators: raw values, field values, indices.

use crate::desc::{FieldDesc, Kind};
use crate::model::mask;
use crate::rng::Rng;

#[derive(Clone, Debug)]
pub struct Cfg {
    pub seed: u64,
    pub thorough: bool,
    /// enumerate all raw values when the base has at most this many bits
    pub exh_raw_bits: u32,
    /// enumerate all field values when the field has at most this many bits
    pub exh_val_bits: u32,
    /// log2 cap on |raws| x |values| for exhaustive pair enumeration
    pub exh_pair_bits: u32,
    pub n_rand_raw: u32,
    pub n_rand_val: u32,
    pub n_twin_raws: u32,
    pub hist_count: u32,
    pub hist_len: u32,
    pub long_hist_len: u32,
    /// only unexpected panics (and cross-profile digests) are judged; model mismatches are counted
    pub judge_panics_only: bool,
    pub trace: bool,
    pub only_case: Option<String>,
    pub scale: u32,
    /// minimal boundary workload (for the interpreter)
    pub tiny: bool,
}

impl Cfg {
    pub fn quick(seed: u64) -> Cfg {
        Cfg {
            seed,
            thorough: false,
            exh_raw_bits: 12,
            exh_val_bits: 10,
            exh_pair_bits: 18,
            n_rand_raw: 96,
            n_rand_val: 24,
            n_twin_raws: 4,
            hist_count: 60,
            hist_len: 64,
            long_hist_len: 4096,
            judge_panics_only: false,
            trace: false,
            only_case: None,
            scale: 1,
            tiny: false,
        }
    }
    pub fn thorough(seed: u64) -> Cfg {
        Cfg {
            seed,
            thorough: true,
            exh_raw_bits: 16,
            exh_val_bits: 16,
            exh_pair_bits: 22,
            n_rand_raw: 512,
            n_rand_val: 32,
            n_twin_raws: 8,
            hist_count: 120,
            hist_len: 128,
            long_hist_len: 20_000,
            judge_panics_only: false,
            trace: false,
            only_case: None,
            scale: 1,
            tiny: false,
        }
    }
}

fn dedup(mut v: Vec<u128>) -> Vec<u128> {
    let mut seen = std::collections::HashSet::with_capacity(v.len() * 2);
    v.retain(|x| seen.insert(*x));
    v
}

pub fn pos_mask(pos: &[u32]) -> u128 {
    let mut m = 0u128;
    for &p in pos {
        m |= 1u128 << p;
    }
    m
}

/// Boundary-biased raw values of a `base_w`-bit register for a field occupying `fmask`.
/// Returns (values, exhaustive?).
pub fn raws(base_w: u32, fmask: u128, rng: &mut Rng, cfg: &Cfg, n_rand: u32) -> (Vec<u128>, bool) {
    let bm = mask(base_w);
    if base_w <= cfg.exh_raw_bits {
        return ((0..=bm).collect(), true);
    }
    if cfg.tiny {
        let v = vec![0, bm, fmask & bm, !fmask & bm, 0x5555_5555_5555_5555_5555_5555_5555_5555 & bm, rng.bits128() & bm, 1u128 << (base_w - 1)];
        return (dedup(v), false);
    }
    let mut v: Vec<u128> = vec![0, bm, fmask & bm, !fmask & bm];
    v.push(0x5555_5555_5555_5555_5555_5555_5555_5555 & bm);
    v.push(0xAAAA_AAAA_AAAA_AAAA_AAAA_AAAA_AAAA_AAAA & bm);
    v.push((fmask << 1) & bm);
    v.push((fmask >> 1) & bm);
    v.push(((fmask << 1) | (fmask >> 1)) & !fmask & bm);
    for k in 0..base_w {
        v.push(1u128 << k);
        v.push(bm & !(1u128 << k));
    }
    for _ in 0..n_rand {
        v.push(rng.bits128() & bm);
    }
    // random inside the field with fixed surroundings, and the reverse
    for _ in 0..(n_rand / 4) {
        let r = rng.next128();
        v.push(r & fmask & bm);
        v.push((r | !fmask) & bm);
    }
    (dedup(v), false)
}

/// A small set of raw values (for pairing with many written values).
pub fn raws_small(base_w: u32, fmask: u128, rng: &mut Rng, n_rand: u32) -> Vec<u128> {
    let bm = mask(base_w);
    if n_rand == 0 {
        return dedup(vec![0, bm, !fmask & bm, rng.bits128() & bm]);
    }
    let mut v: Vec<u128> = vec![
        0,
        bm,
        fmask & bm,
        !fmask & bm,
        0x5555_5555_5555_5555_5555_5555_5555_5555 & bm,
        0xAAAA_AAAA_AAAA_AAAA_AAAA_AAAA_AAAA_AAAA & bm,
        ((fmask << 1) | (fmask >> 1)) & !fmask & bm,
    ];
    for _ in 0..n_rand {
        v.push(rng.bits128() & bm);
    }
    dedup(v)
}

/// "Choices" to write through a field (see FieldDesc::enc). Returns (choices, exhaustive?).
pub fn vals(fd: &FieldDesc, rng: &mut Rng, cfg: &Cfg, n_rand: u32, single_bits: bool) -> (Vec<u128>, bool) {
    match fd.kind {
        Kind::Enum | Kind::OptEnum => {
            let n = fd.table.unwrap().discrs.len() as u128;
            if n <= 4096 {
                return ((0..n).collect(), true);
            }
            let mut v = vec![0, n - 1, n / 2];
            for _ in 0..(n_rand + 64) {
                v.push(rng.next128() % n);
            }
            return (dedup(v), false);
        }
        _ => {}
    }
    let w = fd.width;
    let m = mask(w);
    if w <= cfg.exh_val_bits {
        return ((0..=m).collect(), true);
    }
    let msb = 1u128 << (w - 1);
    if cfg.tiny {
        return (dedup(vec![0, m, 1, msb, msb - 1, rng.bits128() & m]), false);
    }
    let mut v: Vec<u128> = vec![
        0,
        m,
        1,
        msb,
        m - 1,
        msb | 1,
        msb - 1,
        msb + 1,
        m - 2,
        2,
        0x5555_5555_5555_5555_5555_5555_5555_5555 & m,
        0xAAAA_AAAA_AAAA_AAAA_AAAA_AAAA_AAAA_AAAA & m,
    ];
    if single_bits {
        for k in 0..w {
            v.push(1u128 << k);
            v.push(m & !(1u128 << k));
        }
    }
    for _ in 0..n_rand {
        v.push(rng.bits128() & m);
    }
    (dedup(v), false)
}

/// Out-of-range indices for an array of `count` elements with `stride`, including candidates whose
/// `index * stride` wraps around 2^64 to a small value.
pub fn oob_indices(count: u32, stride: u32, storage_w: u32, tiny: bool) -> Vec<usize> {
    let k = count as u128;
    if tiny {
        let w = if stride > 0 { ((1u128 << 64) + stride as u128 - 1) / stride as u128 } else { 1u128 << 63 };
        return vec![k as usize, storage_w.max(count + 1) as usize, w as usize, usize::MAX];
    }
    let mut v: Vec<u128> = vec![k, k + 1, 2 * k, 2 * k + 1, storage_w as u128, 128, 255, 256, 1 << 16, 1 << 31, 1 << 32, (1 << 32) + 1];
    let two64: u128 = 1u128 << 64;
    if stride > 0 {
        let s = stride as u128;
        let w = (two64 + s - 1) / s; // smallest i with i*s >= 2^64
        v.push(w);
        v.push(w + 1);
        v.push(w + k - 1);
        // multiples that wrap several times
        v.push(2 * w);
        v.push(two64 / 2 / s * 2);
    }
    v.push(two64 - 1);
    v.push(two64 - 2);
    v.push(two64 / 2);
    v.push(two64 / 2 + 1);
    let mut out: Vec<usize> = Vec::new();
    for x in v {
        if x >= k && x < two64 {
            let u = x as usize;
            if !out.contains(&u) {
                out.push(u);
            }
        }
    }
    out
}
