//! The monitors. Each one drives the real generated code through the [`Subject`] glue with a hostile
//! workload and compares every observation with the reference register.

use crate::desc::{CaseDesc, EnumDesc, FieldDesc};
use crate::gen::{self, pos_mask, Cfg};
use crate::guard;
use crate::model::{expect_obs, mask, RefReg};
use crate::obs::Obs;
use crate::rng::Rng;
use crate::stats::{Digest, Stats, VKind, J};
use crate::subject::{EnumSubject, Subject};

pub struct Ctx<'a> {
    pub cfg: &'a Cfg,
    pub prop: &'a str,
    pub profile: &'a str,
    pub st: Stats,
    pub dg: Digest,
    pub dg_n: u64,
}

pub const OP_GET: u64 = 1;
pub const OP_WITH: u64 = 2;
pub const OP_SET: u64 = 3;
pub const OP_BUILD: u64 = 4;
pub const OP_DEBUG: u64 = 5;
pub const OP_CONST: u64 = 6;
pub const OP_ENUM_FROM: u64 = 7;
pub const OP_ENUM_TO: u64 = 8;
pub const OP_RAW: u64 = 9;

fn op_name(op: u64) -> &'static str {
    match op {
        OP_GET => "get",
        OP_WITH => "with",
        OP_SET => "set",
        OP_BUILD => "build",
        OP_DEBUG => "debug",
        OP_CONST => "const",
        OP_ENUM_FROM => "enum_from_raw",
        OP_ENUM_TO => "enum_to_raw",
        OP_RAW => "raw",
        _ => "?",
    }
}

impl<'a> Ctx<'a> {
    pub fn new(cfg: &'a Cfg, prop: &'a str, profile: &'a str) -> Self {
        Ctx { cfg, prop, profile, st: Stats::default(), dg: Digest::new(), dg_n: 0 }
    }
    pub fn begin_case(&mut self) {
        self.dg = Digest::new();
        self.dg_n = 0;
        self.st.cases += 1;
    }
    pub fn end_case(&mut self, id: &str) {
        self.st.case_digests.push((id.to_string(), self.dg, self.dg_n));
    }
    /// one monitored operation: folded into the case digest, counted, optionally traced
    #[inline]
    pub fn eval(&mut self, op: u64, f: usize, i: usize, a: u128, b: u128, out: u128, tag: u64) {
        self.st.evaluations += 1;
        self.dg_n += 1;
        self.dg.fold64(op | ((f as u64) << 8) | ((tag) << 40));
        self.dg.fold64(i as u64);
        self.dg.fold128(a);
        self.dg.fold128(b);
        self.dg.fold128(out);
        if self.cfg.trace {
            println!("TRACE {} f={} i={} a={:#x} b={:#x} -> tag={} {:#x}", op_name(op), f, i, a, b, tag, out);
        }
    }
    pub fn eval_obs(&mut self, op: u64, f: usize, i: usize, a: u128, b: u128, o: &Obs) {
        let (t, v) = o.fold();
        self.eval(op, f, i, a, b, v, t);
    }
    #[allow(clippy::too_many_arguments)]
    pub fn violate(
        &mut self,
        kind: VKind,
        d: &CaseDesc,
        monitor: &str,
        what: &str,
        field: Option<(&FieldDesc, usize)>,
        op: u64,
        raw: u128,
        value: u128,
        observed: &str,
        expected: &str,
        history: &[String],
    ) {
        match kind {
            VKind::UnexpectedPanic => self.st.unexpected_panics += 1,
            VKind::Model => self.st.model_mismatches += 1,
            _ => {}
        }
        if self.cfg.judge_panics_only && kind != VKind::UnexpectedPanic {
            self.st.count(&format!("not-judged-here/{}", kind.name()), 1);
            return;
        }
        self.st.violation_count += 1;
        if self.st.violations.len() >= 24 {
            return;
        }
        let mut j = J::obj()
            .s("property", self.prop)
            .s("kind", kind.name())
            .s("monitor", monitor)
            .s("what", what)
            .s("profile", self.profile)
            .s("case", d.id)
            .s("family", d.family)
            .s("decl", d.decl)
            .s("op", op_name(op))
            .hex("raw", raw)
            .hex("value", value)
            .s("observed", observed)
            .s("expected", expected);
        if let Some((fd, i)) = field {
            j = j.s("field", fd.name).s("field_decl", fd.decl).n("index", i as u64);
        }
        if !history.is_empty() {
            let h: Vec<String> = history.iter().rev().take(80).rev().cloned().collect();
            j = j.strs("history_tail", &h).n("history_len", history.len() as u64);
        }
        self.st.violations.push(j.end());
    }
    pub fn sample(&mut self, json: String) {
        if self.st.samples.len() < 6 {
            self.st.samples.push(json);
        }
    }
}

/// first line(s) of a declaration up to the opening brace (for compact samples)
pub fn head(d: &CaseDesc) -> String {
    match d.decl.find('{') {
        Some(p) => format!("{} .. }}", &d.decl[..=p]),
        None => d.decl.to_string(),
    }
}

pub fn shape_of(d: &CaseDesc, fd: &FieldDesc) -> String {
    let lo = fd.ranges.iter().map(|r| r.0).min().unwrap_or(0);
    let hi = fd.ranges.iter().map(|r| r.1).max().unwrap_or(0) + fd.count().saturating_sub(1) * fd.stride();
    let place = if lo == 0 && hi == d.base_width - 1 && !fd.is_list() && fd.array.is_none() {
        "full"
    } else if hi == d.base_width - 1 {
        "top"
    } else if lo == 0 {
        "bottom"
    } else {
        "mid"
    };
    let x64 = if lo < 64 && hi >= 64 { "+x64" } else { "" };
    let wcls = if fd.width == d.storage_width {
        "w=S"
    } else if fd.native {
        "w=nat"
    } else {
        "w=arb"
    };
    format!(
        "s{}{}|{}|{}|{}{}|{}{}",
        d.storage_width,
        if d.base_width != d.storage_width { "arb" } else { "" },
        fd.kind.name(),
        wcls,
        place,
        x64,
        if fd.is_list() { "list" } else { "range" },
        match fd.array {
            Some((_, s)) if s > fd.width => "[]gap",
            Some((_, s)) if s < fd.width => "[]interleave",
            Some(_) => "[]",
            None => "",
        }
    )
}

/// element indices to visit: all of them, or {0, 1, K-1} in the minimal (interpreter) workload
fn elem_indices(count: u32, tiny: bool) -> Vec<u32> {
    if !tiny || count <= 3 {
        (0..count).collect()
    } else {
        vec![0, 1, count - 1]
    }
}

fn obs_of<R>(r: Result<R, String>, f: impl FnOnce(R) -> Obs) -> Obs {
    match r {
        Ok(v) => f(v),
        Err(m) => Obs::Panic(m),
    }
}

// ------------------------------------------------------------------------------------------------
// getter monitor (C01, C04, C05, C08 read side)
// ------------------------------------------------------------------------------------------------

pub fn mon_get(s: &mut dyn Subject, ctx: &mut Ctx, filt: &dyn Fn(&CaseDesc, &FieldDesc) -> bool) {
    let d = s.desc();
    let bw = d.base_width;
    let bm = mask(bw);
    let mut rng = Rng::from_str(ctx.cfg.seed ^ 0x01, d.id);
    for (fi, fd) in d.fields.iter().enumerate() {
        if !fd.readable || !filt(d, fd) {
            continue;
        }
        if fd.self_overlapping() && !ctx.cfg.judge_panics_only {
            // lists that name a bit twice are outside the gather/scatter guarantee; only totality (C16) applies
            ctx.st.count("fields-skipped/list-names-a-bit-twice", 1);
            continue;
        }
        ctx.st.fields += 1;
        ctx.st.shape(shape_of(d, fd));
        for i in elem_indices(fd.count(), ctx.cfg.tiny) {
            let pos = fd.positions(i);
            let fmask = pos_mask(&pos);
            let (mut raws, exh) = gen::raws(bw, fmask, &mut rng, ctx.cfg, ctx.cfg.n_rand_raw);
            if exh {
                *ctx.st.exhaustive_spaces.entry(format!("get: all 2^{} raw values", bw)).or_insert(0) += 1;
            } else if let Some(dv) = d.default {
                // the declared default and its neighbours are raw values like any other
                for x in [dv, dv ^ 1, dv ^ (fmask & dv.wrapping_neg() & dv), !dv & mask(bw)] {
                    if !raws.contains(&x) {
                        raws.push(x & mask(bw));
                    }
                }
            }
            let mut first: Option<Obs> = None;
            let mut distinct = false;
            let (mut seen1, mut seen0) = (0u128, 0u128);
            let mut bad = false;
            for &r in &raws {
                let obs = obs_of(
                    guard::run(|| {
                        s.reset(r);
                        s.get(fi, i as usize)
                    }),
                    |o| o,
                );
                ctx.eval_obs(OP_GET, fi, i as usize, r, 0, &obs);
                let reg = RefReg::from_raw(r, bw);
                let exp = expect_obs(fd, reg.read(&pos));
                if obs != exp {
                    bad = true;
                    let kind = if matches!(obs, Obs::Panic(_)) { VKind::UnexpectedPanic } else { VKind::Model };
                    ctx.violate(kind, d, "get", "getter result differs from the declared bits of the raw value", Some((fd, i as usize)), OP_GET, r, 0, &obs.show(), &exp.show(), &[]);
                }
                if bad {
                    break; // one witness per (field, element)
                }
                seen1 |= r & fmask;
                seen0 |= !r & fmask;
                match &first {
                    None => first = Some(obs),
                    Some(f) => {
                        if *f != obs {
                            distinct = true;
                        }
                    }
                }
            }
            // isolation twins: flipping any bit outside the field must not change the result
            let mut toggled = 0u128;
            let mut twin_raws: Vec<u128> = if ctx.cfg.tiny { vec![rng.bits128() & bm] } else { vec![0, bm, fmask & bm, !fmask & bm] };
            for _ in 0..ctx.cfg.n_twin_raws {
                twin_raws.push(rng.bits128() & bm);
            }
            let twin_step = if ctx.cfg.tiny { (bw / 6).max(1) } else { 1 };
            let mut twins_ok = 0u64;
            for &r in &twin_raws {
                let base = obs_of(
                    guard::run(|| {
                        s.reset(r);
                        s.get(fi, i as usize)
                    }),
                    |o| o,
                );
                for k in 0..bw {
                    if (fmask >> k) & 1 == 1 || bad || (k % twin_step != 0 && k != bw - 1) {
                        continue;
                    }
                    let r2 = r ^ (1u128 << k);
                    let o2 = obs_of(
                        guard::run(|| {
                            s.reset(r2);
                            s.get(fi, i as usize)
                        }),
                        |o| o,
                    );
                    ctx.eval_obs(OP_GET, fi, i as usize, r2, 1, &o2);
                    if o2 != base {
                        bad = true;
                        let kind = if matches!(o2, Obs::Panic(_)) { VKind::UnexpectedPanic } else { VKind::Model };
                        ctx.violate(kind, d, "get-twin", &format!("bit {} lies outside the field but changes the getter result", k), Some((fd, i as usize)), OP_GET, r2, r, &o2.show(), &base.show(), &[]);
                    } else {
                        toggled |= 1u128 << k;
                        twins_ok += 1;
                    }
                }
            }
            let outside = !fmask & bm;
            ctx.st.field_bits_total += fmask.count_ones() as u64;
            ctx.st.field_bits_toggled += (seen1 & seen0).count_ones() as u64;
            ctx.st.outside_bits_total += outside.count_ones() as u64;
            ctx.st.outside_bits_toggled += (toggled & outside).count_ones() as u64;
            if distinct && (twins_ok > 0 || outside == 0 || ctx.cfg.tiny) && !bad {
                ctx.st.nontrivial += 1;
            }
            if fi == 0 && i == 0 && !raws.is_empty() {
                let r = raws[raws.len() / 2];
                let reg = RefReg::from_raw(r, bw);
                ctx.sample(
                    J::obj()
                        .s("case", d.id)
                        .s("bitfield", &head(d))
                        .s("field", fd.decl)
                        .s("op", &format!("new_with_raw_value({:#x}).{}({})", r, fd.name, if fd.array.is_some() { i.to_string() } else { String::new() }))
                        .s("observed_equals_model", &expect_obs(fd, reg.read(&pos)).show())
                        .n("raws_tried", raws.len() as u64)
                        .b("raws_exhaustive", exh)
                        .end(),
                );
            }
        }
    }
}

// ------------------------------------------------------------------------------------------------
// setter monitor (C02, C04, C05, C08 write side)
// ------------------------------------------------------------------------------------------------

pub fn mon_put(s: &mut dyn Subject, ctx: &mut Ctx, filt: &dyn Fn(&CaseDesc, &FieldDesc) -> bool) {
    let d = s.desc();
    let bw = d.base_width;
    let mut rng = Rng::from_str(ctx.cfg.seed ^ 0x02, d.id);
    for (fi, fd) in d.fields.iter().enumerate() {
        if !fd.writable || !filt(d, fd) {
            continue;
        }
        // a list that names a bit twice: what lands inside the field is outside every guarantee, but the write must still
        // leave every bit outside the field alone, not touch its receiver, and set_ must agree with with_
        let outside_only = fd.self_overlapping();
        if outside_only {
            ctx.st.count("fields-judged-on-outside-bits-only/list-names-a-bit-twice", 1);
        }
        ctx.st.fields += 1;
        ctx.st.shape(shape_of(d, fd));
        for i in elem_indices(fd.count(), ctx.cfg.tiny) {
            let pos = fd.positions(i);
            let fmask = pos_mask(&pos);
            // all values of the field only where that stays affordable: narrow fields, or small bases (then with all raws)
            let put_bits = if bw <= ctx.cfg.exh_raw_bits { ctx.cfg.exh_val_bits } else { ctx.cfg.exh_val_bits.min(if ctx.cfg.thorough { 10 } else { 8 }) };
            let (mut choices, vexh) = gen::vals(fd, &mut rng, &Cfg { exh_val_bits: put_bits, ..ctx.cfg.clone() }, ctx.cfg.n_rand_val, true);
            if ctx.cfg.tiny && choices.len() > 6 {
                let last = choices[choices.len() - 1];
                choices.truncate(5);
                choices.push(last);
            }
            let lg = 128 - (choices.len() as u128).leading_zeros();
            let (raws, rexh) = if bw <= ctx.cfg.exh_raw_bits && bw + lg <= ctx.cfg.exh_pair_bits {
                ((0..=mask(bw)).collect::<Vec<u128>>(), true)
            } else {
                (gen::raws_small(bw, fmask, &mut rng, if ctx.cfg.tiny { 0 } else { ctx.cfg.n_rand_val / 2 + 4 }), false)
            };
            if rexh && vexh {
                *ctx.st.exhaustive_spaces.entry(format!("put: all raw x all values on a {}-bit base", bw)).or_insert(0) += 1;
            }
            let (mut nt_old, mut nb0, mut nb1) = (false, false, false);
            let neigh = ((fmask << 1) | (fmask >> 1)) & !fmask & mask(bw);
            let mut bad = false;
            for &r in &raws {
                let reg0 = RefReg::from_raw(r, bw);
                let old = reg0.read(&pos);
                for &c in &choices {
                    let (arg, pat) = fd.enc(c);
                    let mut reg = reg0.clone();
                    reg.write(&pos, pat);
                    let exp = reg.to_raw();
                    let readable = fd.readable;
                    let w = guard::run(|| {
                        s.reset(r);
                        let recv = s.with(fi, i as usize, arg);
                        let st = s.storage();
                        let rv = s.raw();
                        let back = if readable { Some(s.get(fi, i as usize)) } else { None };
                        (recv, st, rv, back)
                    });
                    match w {
                        Err(m) => {
                            bad = true;
                            ctx.eval(OP_WITH, fi, i as usize, r, arg, 0, 7);
                            ctx.violate(VKind::UnexpectedPanic, d, "put", "with_ panicked for an in-range index and a value of the field type", Some((fd, i as usize)), OP_WITH, r, arg, &format!("panic: {}", m), &format!("{:#x}", exp), &[]);
                        }
                        Ok((recv, st, rv, back)) => {
                            ctx.eval(OP_WITH, fi, i as usize, r, arg, st, 0);
                            if recv != r {
                                bad = true;
                                ctx.violate(VKind::Invariant, d, "put", "with_ changed its receiver", Some((fd, i as usize)), OP_WITH, r, arg, &format!("receiver {:#x}", recv), &format!("receiver {:#x}", r), &[]);
                            }
                            if outside_only {
                                if (st ^ r) & !fmask != 0 {
                                    bad = true;
                                    ctx.violate(VKind::Invariant, d, "put", &format!("with_ changed bits outside the field (xor {:#x})", (st ^ r) & !fmask), Some((fd, i as usize)), OP_WITH, r, arg, &format!("{:#x}", st), &format!("bits outside {:#x} as in {:#x}", fmask, r), &[]);
                                }
                            } else if st != exp {
                                bad = true;
                                ctx.violate(VKind::Model, d, "put", "with_ result differs from 'field bits = value, all other bits unchanged'", Some((fd, i as usize)), OP_WITH, r, arg, &format!("{:#x}", st), &format!("{:#x}", exp), &[]);
                            } else if rv != exp {
                                bad = true;
                                ctx.violate(VKind::Model, d, "put", "raw_value() after with_ differs from the storage", Some((fd, i as usize)), OP_RAW, r, arg, &format!("{:#x}", rv), &format!("{:#x}", exp), &[]);
                            }
                            if let Some(b) = back {
                                ctx.eval_obs(OP_GET, fi, i as usize, st, 2, &b);
                                let e = expect_obs(fd, pat);
                                if b != e && !outside_only {
                                    bad = true;
                                    ctx.violate(VKind::Model, d, "put", "read-back after with_ differs from the written value", Some((fd, i as usize)), OP_GET, r, arg, &b.show(), &e.show(), &[]);
                                }
                            }
                            let s2 = guard::run(|| {
                                s.reset(r);
                                s.set(fi, i as usize, arg);
                                s.storage()
                            });
                            match s2 {
                                Err(m) => {
                                    bad = true;
                                    ctx.eval(OP_SET, fi, i as usize, r, arg, 0, 7);
                                    ctx.violate(VKind::UnexpectedPanic, d, "put", "set_ panicked for an in-range index and a value of the field type", Some((fd, i as usize)), OP_SET, r, arg, &format!("panic: {}", m), &format!("{:#x}", exp), &[]);
                                }
                                Ok(st2) => {
                                    ctx.eval(OP_SET, fi, i as usize, r, arg, st2, 0);
                                    if st2 != st {
                                        bad = true;
                                        ctx.violate(VKind::Invariant, d, "put", "set_ leaves a different object than with_ returns", Some((fd, i as usize)), OP_SET, r, arg, &format!("set_: {:#x}", st2), &format!("with_: {:#x}", st), &[]);
                                    } else if st2 != exp && !outside_only {
                                        bad = true;
                                    }
                                }
                            }
                        }
                    }
                    if bad {
                        break;
                    }
                    if old != 0 && old != pat {
                        nt_old = true;
                    }
                    if r & neigh == 0 {
                        nb0 = true;
                    }
                    if r & neigh == neigh {
                        nb1 = true;
                    }
                }
                if bad {
                    break;
                }
            }
            if nt_old && nb0 && nb1 && !bad {
                ctx.st.nontrivial += 1;
            }
            if fi == 0 && i == 0 && !raws.is_empty() && !choices.is_empty() {
                let r = raws[raws.len() - 1];
                let (arg, pat) = fd.enc(choices[choices.len() / 2]);
                let mut reg = RefReg::from_raw(r, bw);
                reg.write(&pos, pat);
                ctx.sample(
                    J::obj()
                        .s("case", d.id)
                        .s("bitfield", &head(d))
                        .s("field", fd.decl)
                        .s("op", &format!("new_with_raw_value({:#x}).with_{}/set_{}({}{:#x})", r, fd.name, fd.name, if fd.array.is_some() { format!("{}, ", i) } else { String::new() }, arg))
                        .hex("storage_after_equals_model", reg.to_raw())
                        .n("raws", raws.len() as u64)
                        .n("values", choices.len() as u64)
                        .b("pairs_exhaustive", rexh && vexh)
                        .end(),
                );
            }
        }
    }
}

// ------------------------------------------------------------------------------------------------
// array monitor (C03): element isolation + bounds checks
// ------------------------------------------------------------------------------------------------

fn elements_disjoint(fd: &FieldDesc) -> bool {
    let mut m = 0u128;
    for i in 0..fd.count() {
        let pm = pos_mask(&fd.positions(i));
        if pm & m != 0 {
            return false;
        }
        m |= pm;
    }
    true
}

pub fn mon_array(s: &mut dyn Subject, ctx: &mut Ctx, filt: &dyn Fn(&CaseDesc, &FieldDesc) -> bool) {
    let d = s.desc();
    let bw = d.base_width;
    let bm = mask(bw);
    let mut rng = Rng::from_str(ctx.cfg.seed ^ 0x03, d.id);
    for (fi, fd) in d.fields.iter().enumerate() {
        let Some((count, stride)) = fd.array else { continue };
        if !filt(d, fd) || (fd.self_overlapping() && !ctx.cfg.judge_panics_only) {
            continue;
        }
        ctx.st.fields += 1;
        ctx.st.shape(shape_of(d, fd));
        let disjoint = elements_disjoint(fd);
        let all_pos: Vec<Vec<u32>> = (0..count).map(|i| fd.positions(i)).collect();
        let mut every_elem_written = true;
        let mut bad = false;
        // --- element isolation ---
        if fd.writable && disjoint {
            let n_choices = fd.n_choices();
            for round in 0..(if ctx.cfg.tiny { 1 } else { 3 + ctx.cfg.n_rand_val / 8 }) {
                let r0 = match round {
                    0 => 0,
                    1 => bm,
                    _ => rng.bits128() & bm,
                };
                let mut reg = RefReg::from_raw(r0, bw);
                // distinct non-zero element values where the type allows
                for (j, p) in all_pos.iter().enumerate() {
                    let c = if n_choices > count as u128 { (j as u128 + 1 + (round as u128 * 7)) % n_choices } else { rng.next128() % n_choices };
                    let c = if c == 0 && n_choices > 1 { 1 } else { c };
                    reg.write(p, fd.enc(c).1);
                }
                let start = reg.to_raw();
                for i in elem_indices(count, ctx.cfg.tiny) {
                    let cs: [u128; 4] = [0, n_choices.wrapping_sub(1), rng.next128(), rng.next128()];
                    let mut wrote = false;
                    for (ci, &c) in cs.iter().enumerate() {
                        let (arg, pat) = fd.enc(if n_choices == u128::MAX { c } else { c % n_choices });
                        let mut exp_reg = reg.clone();
                        exp_reg.write(&all_pos[i as usize], pat);
                        let exp = exp_reg.to_raw();
                        let use_set = ci % 2 == 1;
                        let res = guard::run(|| {
                            s.reset(start);
                            if use_set {
                                s.set(fi, i as usize, arg);
                            } else {
                                s.with(fi, i as usize, arg);
                            }
                            s.storage()
                        });
                        match res {
                            Err(m) => {
                                bad = true;
                                ctx.eval(if use_set { OP_SET } else { OP_WITH }, fi, i as usize, start, arg, 0, 7);
                                ctx.violate(VKind::UnexpectedPanic, d, "array", "write to an in-range element panicked", Some((fd, i as usize)), if use_set { OP_SET } else { OP_WITH }, start, arg, &format!("panic: {}", m), &format!("{:#x}", exp), &[]);
                            }
                            Ok(st) => {
                                ctx.eval(if use_set { OP_SET } else { OP_WITH }, fi, i as usize, start, arg, st, 0);
                                if st != exp {
                                    bad = true;
                                    let diff = st ^ exp;
                                    ctx.violate(VKind::Model, d, "array", &format!("writing element {} changed bits outside it or stored the wrong bits (xor with expectation {:#x})", i, diff), Some((fd, i as usize)), if use_set { OP_SET } else { OP_WITH }, start, arg, &format!("{:#x}", st), &format!("{:#x}", exp), &[]);
                                } else {
                                    wrote = true;
                                }
                                if fd.readable {
                                    for j in elem_indices(count, ctx.cfg.tiny) {
                                        let o = obs_of(guard::run(|| s.get(fi, j as usize)), |o| o);
                                        ctx.eval_obs(OP_GET, fi, j as usize, st, 3, &o);
                                        let e = expect_obs(fd, exp_reg.read(&all_pos[j as usize]));
                                        if o != e {
                                            bad = true;
                                            let kind = if matches!(o, Obs::Panic(_)) { VKind::UnexpectedPanic } else { VKind::Model };
                                            ctx.violate(kind, d, "array", &format!("element {} read after writing element {}", j, i), Some((fd, j as usize)), OP_GET, st, arg, &o.show(), &e.show(), &[]);
                                        }
                                    }
                                }
                            }
                        }
                    }
                    if !wrote {
                        every_elem_written = false;
                    }
                }
            }
        } else if fd.readable {
            // read-only arrays: every element against the model on a few raws
            for _ in 0..8 {
                let r = rng.bits128() & bm;
                let reg = RefReg::from_raw(r, bw);
                for j in 0..count {
                    let o = obs_of(
                        guard::run(|| {
                            s.reset(r);
                            s.get(fi, j as usize)
                        }),
                        |o| o,
                    );
                    ctx.eval_obs(OP_GET, fi, j as usize, r, 3, &o);
                    let e = expect_obs(fd, reg.read(&all_pos[j as usize]));
                    if o != e {
                        bad = true;
                        ctx.violate(VKind::Model, d, "array", "element read", Some((fd, j as usize)), OP_GET, r, 0, &o.show(), &e.show(), &[]);
                    }
                }
            }
        }
        // --- bounds ---
        let oob = gen::oob_indices(count, stride, d.storage_width, ctx.cfg.tiny);
        let probe_raws: Vec<u128> = if ctx.cfg.tiny { vec![rng.bits128() & bm] } else { vec![0u128, bm, rng.bits128() & bm] };
        let mut panics_seen = [0u32; 3];
        for &idx in &oob {
            for &r in &probe_raws {
                let arg = fd.enc(if fd.n_choices() == u128::MAX { u128::MAX } else { fd.n_choices() - 1 }).0;
                if fd.readable {
                    let res = guard::run(|| {
                        s.reset(r);
                        s.get(fi, idx)
                    });
                    match res {
                        Err(_) => {
                            ctx.st.expected_panics += 1;
                            panics_seen[0] += 1;
                            ctx.eval(OP_GET, fi, idx, r, 0, 0, 7);
                        }
                        Ok(o) => {
                            bad = true;
                            ctx.eval_obs(OP_GET, fi, idx, r, 0, &o);
                            ctx.violate(VKind::MissingPanic, d, "array-bounds", &format!("getter accepted index {} of a {}-element array", idx, count), Some((fd, idx)), OP_GET, r, 0, &o.show(), "panic", &[]);
                        }
                    }
                }
                if fd.writable {
                    let res = guard::run(|| {
                        s.reset(r);
                        s.with(fi, idx, arg);
                        s.storage()
                    });
                    match res {
                        Err(_) => {
                            ctx.st.expected_panics += 1;
                            panics_seen[1] += 1;
                            ctx.eval(OP_WITH, fi, idx, r, arg, 0, 7);
                        }
                        Ok(st) => {
                            bad = true;
                            ctx.eval(OP_WITH, fi, idx, r, arg, st, 0);
                            ctx.violate(VKind::MissingPanic, d, "array-bounds", &format!("with_ accepted index {} of a {}-element array", idx, count), Some((fd, idx)), OP_WITH, r, arg, &format!("returned {:#x}", st), "panic", &[]);
                        }
                    }
                    s.reset(r);
                    let res = guard::run(|| s.set(fi, idx, arg));
                    let after = s.storage();
                    match res {
                        Err(_) => {
                            ctx.st.expected_panics += 1;
                            panics_seen[2] += 1;
                            ctx.eval(OP_SET, fi, idx, r, arg, after, 7);
                            if after != r {
                                bad = true;
                                ctx.violate(VKind::Invariant, d, "array-bounds", "set_ with an out-of-range index panicked but modified the object", Some((fd, idx)), OP_SET, r, arg, &format!("{:#x}", after), &format!("{:#x}", r), &[]);
                            }
                        }
                        Ok(()) => {
                            bad = true;
                            ctx.eval(OP_SET, fi, idx, r, arg, after, 0);
                            ctx.violate(VKind::MissingPanic, d, "array-bounds", &format!("set_ accepted index {} of a {}-element array", idx, count), Some((fd, idx)), OP_SET, r, arg, &format!("object now {:#x}", after), "panic", &[]);
                        }
                    }
                }
            }
        }
        let need = if ctx.cfg.tiny { 1 } else { 3 };
        let bounds_ok = (!fd.readable || panics_seen[0] >= need) && (!fd.writable || (panics_seen[1] >= need && panics_seen[2] >= need));
        if bounds_ok && every_elem_written && !bad {
            ctx.st.nontrivial += 1;
        }
        ctx.sample(
            J::obj()
                .s("case", d.id)
                .s("bitfield", &head(d))
                .s("field", fd.decl)
                .n("elements", count as u64)
                .n("stride", stride as u64)
                .b("elements_disjoint", disjoint)
                .strs("out_of_range_indices_tried", &oob.iter().map(|x| x.to_string()).collect::<Vec<_>>())
                .n("getter_panics", panics_seen[0] as u64)
                .n("with_panics", panics_seen[1] as u64)
                .n("set_panics", panics_seen[2] as u64)
                .end(),
        );
    }
}

// ------------------------------------------------------------------------------------------------
// history monitor (C11, C12, C17 run-time part)
// ------------------------------------------------------------------------------------------------

fn all_getters(s: &mut dyn Subject, d: &CaseDesc) -> Vec<Obs> {
    let mut v = Vec::new();
    for (fi, fd) in d.fields.iter().enumerate() {
        if !fd.readable || fd.self_overlapping() {
            continue;
        }
        for i in 0..fd.count() {
            v.push(obs_of(guard::run(|| s.get(fi, i as usize)), |o| o));
        }
    }
    v
}

fn model_getters(d: &CaseDesc, reg: &RefReg) -> Vec<Obs> {
    let mut v = Vec::new();
    for fd in d.fields.iter() {
        if !fd.readable || fd.self_overlapping() {
            continue;
        }
        for i in 0..fd.count() {
            v.push(expect_obs(fd, reg.read(&fd.positions(i))));
        }
    }
    v
}

pub struct HistOpts {
    /// check "no state above bit N-1" and rewrap-indistinguishability (C11)
    pub register_invariant: bool,
    pub commutation: bool,
}

pub fn mon_hist(s: &mut dyn Subject, ctx: &mut Ctx, opts: &HistOpts) {
    let d = s.desc();
    let bw = d.base_width;
    let bm = mask(bw);
    let mut rng = Rng::from_str(ctx.cfg.seed ^ 0x04, d.id);
    let writable: Vec<usize> = d.fields.iter().enumerate().filter(|(_, f)| f.writable).map(|(i, _)| i).collect();
    if writable.is_empty() {
        ctx.st.count("cases-without-writable-field", 1);
        return;
    }
    if d.fields.iter().any(|f| f.self_overlapping()) {
        ctx.st.count("cases-with-a-list-naming-a-bit-twice (its own bits are taken from the object, everything else is judged)", 1);
    }
    for fd in d.fields.iter() {
        ctx.st.fields += 1;
        ctx.st.shape(shape_of(d, fd));
    }
    // bits no writable field covers must keep their initial value (C17 run-time part)
    let mut wmask = 0u128;
    for &fi in &writable {
        let fd = &d.fields[fi];
        for i in 0..fd.count() {
            wmask |= pos_mask(&fd.positions(i));
        }
    }
    let n_getters: u32 = d.fields.iter().filter(|f| f.readable).map(|f| f.count()).sum();
    let getter_every = if n_getters <= 8 { 1 } else if n_getters <= 32 { 4 } else { 16 };
    let rewrap_every = if n_getters <= 8 { 1 } else { 8 };
    let mut states = std::collections::HashSet::new();
    let mut top_written = false;
    let mut rewraps = 0u64;
    let mut bad = false;
    // the packed placement structs (48 overlapping fields each, thousands of them) get a quarter of the histories
    let n_hist = if d.family == "single" { (ctx.cfg.hist_count / 4).max(4) } else { ctx.cfg.hist_count };
    for h in 0..=n_hist {
        if bad {
            // one witness per case is enough; later histories would only repeat it
            break;
        }
        // the last history is a long one
        let len = if h == n_hist { ctx.cfg.long_hist_len } else { ctx.cfg.hist_len };
        let r0 = match h {
            0 => 0,
            1 => bm,
            2 => d.default.unwrap_or(0x5555_5555_5555_5555_5555_5555_5555_5555 & bm),
            _ => rng.bits128() & bm,
        };
        s.reset(r0);
        let mut reg = RefReg::from_raw(r0, bw);
        let mut hist: Vec<String> = vec![format!("new_with_raw_value({:#x})", r0)];
        for step in 0..len {
            let fi = writable[rng.below(writable.len() as u64) as usize];
            let fd = &d.fields[fi];
            let i = rng.below(fd.count() as u64) as u32;
            let nc = fd.n_choices();
            let c = match rng.below(8) {
                0 => 0,
                1 => nc.wrapping_sub(1),
                2 => nc / 2,
                _ => rng.bits128(),
            };
            let (arg, pat) = fd.enc(if nc == u128::MAX { c } else { c % nc });
            let use_set = rng.below(2) == 0;
            let pos = fd.positions(i);
            if hist.len() < 4096 {
                hist.push(format!("{}_{}({}{:#x})", if use_set { "set" } else { "with" }, fd.name, if fd.array.is_some() { format!("{}, ", i) } else { String::new() }, arg));
            }
            let before = reg.to_raw();
            reg.write(&pos, pat);
            let mut exp = reg.to_raw();
            let res = guard::run(|| {
                if use_set {
                    s.set(fi, i as usize, arg);
                } else {
                    s.with(fi, i as usize, arg);
                }
                s.storage()
            });
            if fd.self_overlapping() {
                if let Ok(st) = &res {
                    // the field's own bits are unspecified: adopt them, keep judging every other bit
                    let fm = pos_mask(&pos);
                    exp = (exp & !fm) | (*st & fm);
                    reg = RefReg::from_raw(exp, bw);
                }
            }
            let st = match res {
                Err(m) => {
                    bad = true;
                    ctx.eval(if use_set { OP_SET } else { OP_WITH }, fi, i as usize, before, arg, 0, 7);
                    ctx.violate(VKind::UnexpectedPanic, d, "history", "write panicked inside a history", Some((fd, i as usize)), if use_set { OP_SET } else { OP_WITH }, before, arg, &format!("panic: {}", m), &format!("{:#x}", exp), &hist);
                    break;
                }
                Ok(st) => st,
            };
            ctx.eval(if use_set { OP_SET } else { OP_WITH }, fi, i as usize, before, arg, st, 0);
            if pos.contains(&(bw - 1)) && pat == mask(fd.width) {
                top_written = true;
            }
            if opts.register_invariant {
                if bw < 128 && (st >> bw) != 0 {
                    bad = true;
                    ctx.violate(VKind::Invariant, d, "register", &format!("storage holds state above bit {} of a u{} base", bw - 1, bw), Some((fd, i as usize)), if use_set { OP_SET } else { OP_WITH }, before, arg, &format!("storage {:#x}", st), &format!("no bit at or above position {} set", bw), &hist);
                    break;
                }
                match guard::run(|| s.raw()) {
                    Err(m) => {
                        bad = true;
                        ctx.violate(VKind::UnexpectedPanic, d, "register", "raw_value() panicked", Some((fd, i as usize)), OP_RAW, before, arg, &format!("panic: {}", m), &format!("{:#x}", exp), &hist);
                        break;
                    }
                    Ok(rv) => {
                        ctx.eval(OP_RAW, fi, i as usize, st, 0, rv, 0);
                        if rv != exp {
                            bad = true;
                            ctx.violate(VKind::Invariant, d, "register", "raw_value() differs from the register state", Some((fd, i as usize)), OP_RAW, before, arg, &format!("{:#x}", rv), &format!("{:#x}", exp), &hist);
                            break;
                        }
                    }
                }
            }
            if st != exp {
                bad = true;
                ctx.violate(VKind::Model, d, "history", &format!("state after step {} differs from last-write-wins (xor {:#x})", step + 1, st ^ exp), Some((fd, i as usize)), if use_set { OP_SET } else { OP_WITH }, before, arg, &format!("{:#x}", st), &format!("{:#x}", exp), &hist);
                break;
            }
            if (st ^ r0) & !wmask & bm != 0 {
                bad = true;
                ctx.violate(VKind::Invariant, d, "history", "a bit that no writable field covers changed", Some((fd, i as usize)), if use_set { OP_SET } else { OP_WITH }, before, arg, &format!("{:#x}", st), &format!("{:#x}", exp), &hist);
                break;
            }
            if states.len() < (1 << 16) {
                states.insert(st);
            }
            if step % getter_every == 0 {
                let live = all_getters(s, d);
                let m = model_getters(d, &reg);
                for (k, o) in live.iter().enumerate() {
                    ctx.eval_obs(OP_GET, k, 0, st, 4, o);
                }
                if live != m {
                    bad = true;
                    let k = live.iter().zip(m.iter()).position(|(a, b)| a != b).unwrap_or(0);
                    ctx.violate(VKind::Model, d, "history", &format!("getter #{} (declaration order, elements flattened) disagrees with the state", k), None, OP_GET, st, 0, &live[k].show(), &m[k].show(), &hist);
                    break;
                }
            }
            if opts.register_invariant && step % rewrap_every == 0 {
                let live = all_getters(s, d);
                let dbg_live = s.debug(false);
                let ok = guard::run(|| s.rewrap());
                if let Err(m) = ok {
                    bad = true;
                    ctx.violate(VKind::UnexpectedPanic, d, "register", "new_with_raw_value(x.raw_value()) panicked", None, OP_RAW, st, 0, &format!("panic: {}", m), "no panic", &hist);
                    break;
                }
                let re = all_getters(s, d);
                let st2 = s.storage();
                ctx.eval(OP_RAW, 0, 0, st, 1, st2, 0);
                rewraps += 1;
                if live != re || st2 != st || dbg_live != s.debug(false) {
                    bad = true;
                    let k = live.iter().zip(re.iter()).position(|(a, b)| a != b);
                    let (o, e) = match k {
                        Some(k) => (format!("getter #{} on the re-wrapped object: {}", k, re[k].show()), format!("on the live object: {}", live[k].show())),
                        None => (format!("storage {:#x}", st2), format!("storage {:#x}", st)),
                    };
                    ctx.violate(VKind::Invariant, d, "register", "new_with_raw_value(x.raw_value()) is distinguishable from x", None, OP_RAW, st, 0, &o, &e, &hist);
                    break;
                }
            }
        }
    }
    // commutation probes: two writes to disjoint (field, element) pairs meet in both orders
    let mut commuted = 0u64;
    let mut aliased = 0u64;
    if opts.commutation {
        let mut slots: Vec<(usize, u32, u128)> = Vec::new();
        for &fi in &writable {
            let fd = &d.fields[fi];
            if fd.self_overlapping() {
                continue;
            }
            for i in 0..fd.count().min(4) {
                slots.push((fi, i, pos_mask(&fd.positions(i))));
            }
        }
        let n = slots.len();
        let mut pairs = 0;
        'outer: for a in 0..n {
            for b in (a + 1)..n {
                if pairs >= (if ctx.cfg.tiny { 4 } else { 64 }) {
                    break 'outer;
                }
                pairs += 1;
                let (fa, ia, ma) = slots[a];
                let (fb, ib, mb) = slots[b];
                let r = rng.bits128() & bm;
                let (arga, pata) = d.fields[fa].enc(rng.bits128() % d.fields[fa].n_choices().max(1));
                let (argb, patb) = d.fields[fb].enc(rng.bits128() % d.fields[fb].n_choices().max(1));
                let ab = guard::run(|| {
                    s.reset(r);
                    s.with(fa, ia as usize, arga);
                    s.set(fb, ib as usize, argb);
                    s.storage()
                });
                let ba = guard::run(|| {
                    s.reset(r);
                    s.set(fb, ib as usize, argb);
                    s.with(fa, ia as usize, arga);
                    s.storage()
                });
                let (Ok(ab), Ok(ba)) = (ab, ba) else {
                    bad = true;
                    ctx.violate(VKind::UnexpectedPanic, d, "commute", "write panicked", Some((&d.fields[fa], ia as usize)), OP_WITH, r, arga, "panic", "no panic", &[]);
                    continue;
                };
                ctx.eval(OP_WITH, fa, ia as usize, r, arga, ab, 5);
                ctx.eval(OP_WITH, fb, ib as usize, r, argb, ba, 5);
                let mut m1 = RefReg::from_raw(r, bw);
                m1.write(&d.fields[fa].positions(ia), pata);
                m1.write(&d.fields[fb].positions(ib), patb);
                let mut m2 = RefReg::from_raw(r, bw);
                m2.write(&d.fields[fb].positions(ib), patb);
                m2.write(&d.fields[fa].positions(ia), pata);
                if ma & mb == 0 {
                    if ab != ba || ab != m1.to_raw() {
                        bad = true;
                        ctx.violate(VKind::Model, d, "commute", &format!("writes to disjoint fields {} and {} do not commute", d.fields[fa].name, d.fields[fb].name), Some((&d.fields[fa], ia as usize)), OP_WITH, r, arga, &format!("a;b={:#x} b;a={:#x}", ab, ba), &format!("{:#x}", m1.to_raw()), &[]);
                    } else {
                        commuted += 1;
                    }
                } else if ab != m1.to_raw() || ba != m2.to_raw() {
                    bad = true;
                    ctx.violate(VKind::Model, d, "alias", &format!("overlapping fields {} and {} do not alias coherently", d.fields[fa].name, d.fields[fb].name), Some((&d.fields[fa], ia as usize)), OP_WITH, r, arga, &format!("a;b={:#x} b;a={:#x}", ab, ba), &format!("a;b={:#x} b;a={:#x}", m1.to_raw(), m2.to_raw()), &[]);
                } else {
                    aliased += 1;
                }
            }
        }
    }
    ctx.st.states_seen += states.len() as u64;
    ctx.st.count("histories", n_hist as u64 + 1);
    ctx.st.count("commutations-witnessed", commuted);
    ctx.st.count("aliasings-witnessed", aliased);
    ctx.st.count("rewrap-comparisons", rewraps);
    ctx.st.count("bits-not-writable-watched", (!wmask & bm).count_ones() as u64);
    let nontrivial = if opts.register_invariant { top_written && rewraps > 0 } else { states.len() > 2 };
    if nontrivial && !bad {
        ctx.st.nontrivial += 1;
    }
    ctx.sample(
        J::obj()
            .s("case", d.id)
            .s("bitfield", &head(d))
            .n("fields", d.fields.len() as u64)
            .n("histories", n_hist as u64 + 1)
            .n("steps_each", ctx.cfg.hist_len as u64)
            .n("long_history_steps", ctx.cfg.long_hist_len as u64)
            .n("distinct_states_visited", states.len() as u64)
            .n("rewrap_comparisons", rewraps)
            .b("all_ones_written_into_top_field", top_written)
            .end(),
    );
}

// ------------------------------------------------------------------------------------------------
// builder monitor (C13)
// ------------------------------------------------------------------------------------------------

pub fn mon_builder(s: &mut dyn Subject, ctx: &mut Ctx) {
    let d = s.desc();
    if !d.has_builder {
        ctx.st.count("cases-without-builder", 1);
        return;
    }
    let bw = d.base_width;
    let mut rng = Rng::from_str(ctx.cfg.seed ^ 0x05, d.id);
    let writable: Vec<usize> = d.fields.iter().enumerate().filter(|(_, f)| f.writable).map(|(i, _)| i).collect();
    for &fi in &writable {
        ctx.st.fields += 1;
        ctx.st.shape(shape_of(d, &d.fields[fi]));
    }
    let start = d.default.unwrap_or(0);
    let n_tuples = if ctx.cfg.tiny { 3 } else { 6 + ctx.cfg.n_rand_val };
    let mut results = std::collections::HashSet::new();
    let mut bad = false;
    for t in 0..n_tuples {
        let mut args: Vec<Vec<u128>> = Vec::new();
        let mut reg = RefReg::from_raw(start, bw);
        let mut text: Vec<String> = Vec::new();
        for &fi in &writable {
            let fd = &d.fields[fi];
            let nc = fd.n_choices();
            let mut a = Vec::new();
            for i in 0..fd.count() {
                let c = match t {
                    0 => 0,
                    1 => nc.wrapping_sub(1),
                    2 => (i as u128 + 1) % nc.max(1),
                    3 => (fd.count() - i) as u128 % nc.max(1),
                    4 => if (i + fi as u32) % 2 == 0 { nc.wrapping_sub(1) } else { 0 },
                    _ => rng.bits128(),
                };
                let (arg, pat) = fd.enc(if nc == u128::MAX { c } else { c % nc });
                reg.write(&fd.positions(i), pat);
                a.push(arg);
            }
            text.push(format!(".with_{}({})", fd.name, a.iter().map(|x| format!("{:#x}", x)).collect::<Vec<_>>().join(",")));
            args.push(a);
        }
        let exp = reg.to_raw();
        let res = guard::run(|| {
            let ok = s.build(&args);
            (ok, s.storage())
        });
        match res {
            Err(m) => {
                bad = true;
                ctx.eval(OP_BUILD, 0, 0, start, t as u128, 0, 7);
                ctx.violate(VKind::UnexpectedPanic, d, "builder", "builder chain panicked", None, OP_BUILD, start, 0, &format!("panic: {}", m), &format!("{:#x}", exp), &text);
            }
            Ok((false, _)) => {
                ctx.st.count("builder-absent-at-runtime", 1);
                return;
            }
            Ok((true, st)) => {
                ctx.eval(OP_BUILD, 0, 0, start, t as u128, st, 0);
                results.insert(st);
                if st != exp {
                    bad = true;
                    ctx.violate(VKind::Model, d, "builder", &format!("builder()...build() differs from default/zero with every writable field written (xor {:#x})", st ^ exp), None, OP_BUILD, start, 0, &format!("{:#x}", st), &format!("{:#x}", exp), &text);
                }
                // the same writes through with_ on a plain object
                let chain = guard::run(|| {
                    s.reset(start);
                    for (k, &fi) in writable.iter().enumerate() {
                        for (i, &a) in args[k].iter().enumerate() {
                            s.with(fi, i, a);
                        }
                    }
                    s.storage()
                });
                if let Ok(c) = chain {
                    ctx.eval(OP_WITH, 0, 0, start, t as u128, c, 6);
                    if c != st {
                        bad = true;
                        ctx.violate(VKind::Invariant, d, "builder", "builder result differs from the same with_ calls applied to DEFAULT/zero", None, OP_BUILD, start, 0, &format!("{:#x}", st), &format!("{:#x}", c), &text);
                    }
                }
                if t == 5 {
                    ctx.sample(J::obj().s("case", d.id).s("decl", d.decl).s("chain", &format!("builder(){}.build()", text.join(""))).hex("start_default_or_zero", start).hex("result_equals_model", st).end());
                }
            }
        }
    }
    if results.len() >= 2 && !bad {
        ctx.st.nontrivial += 1;
    }
}

// ------------------------------------------------------------------------------------------------
// constants / raw round trip / layout (C06)
// ------------------------------------------------------------------------------------------------

pub fn mon_consts(s: &mut dyn Subject, ctx: &mut Ctx) {
    let d = s.desc();
    let bw = d.base_width;
    let mut rng = Rng::from_str(ctx.cfg.seed ^ 0x06, d.id);
    ctx.st.fields += 1;
    ctx.st.shape(format!("base u{} storage u{} default={}", bw, d.storage_width, d.default.is_some()));
    let (raws, exh) = gen::raws(bw, 0, &mut rng, &Cfg { exh_raw_bits: if ctx.cfg.tiny { ctx.cfg.exh_raw_bits } else { ctx.cfg.exh_raw_bits.max(16) }, ..ctx.cfg.clone() }, ctx.cfg.n_rand_raw * 4);
    if exh {
        *ctx.st.exhaustive_spaces.entry(format!("raw round trip: all 2^{} values", bw)).or_insert(0) += 1;
    }
    let mut bad = false;
    let mut distinct = std::collections::HashSet::new();
    for &r in &raws {
        let res = guard::run(|| {
            s.reset(r);
            (s.raw(), s.storage())
        });
        match res {
            Err(m) => {
                bad = true;
                ctx.eval(OP_RAW, 0, 0, r, 0, 0, 7);
                ctx.violate(VKind::UnexpectedPanic, d, "consts", "new_with_raw_value / raw_value panicked", None, OP_RAW, r, 0, &format!("panic: {}", m), &format!("{:#x}", r), &[]);
            }
            Ok((rv, st)) => {
                ctx.eval(OP_RAW, 0, 0, r, 0, rv, 0);
                if distinct.len() < 4096 {
                    distinct.insert(rv);
                }
                if rv != r || st != r {
                    bad = true;
                    ctx.violate(VKind::Model, d, "consts", "new_with_raw_value(r).raw_value() != r (or the storage differs from r)", None, OP_RAW, r, 0, &format!("raw_value {:#x}, storage {:#x}", rv, st), &format!("{:#x}", r), &[]);
                }
            }
        }
    }
    let c = match guard::run(|| s.consts()) {
        Ok(c) => c,
        Err(m) => {
            ctx.violate(VKind::UnexpectedPanic, d, "consts", "ZERO/DEFAULT/Default/new panicked", None, OP_CONST, 0, 0, &format!("panic: {}", m), "no panic", &[]);
            return;
        }
    };
    ctx.eval(OP_CONST, 0, 0, 0, 0, c.zero, 0);
    if c.zero != 0 {
        bad = true;
        ctx.violate(VKind::Model, d, "consts", "ZERO has a non-zero raw value", None, OP_CONST, 0, 0, &format!("{:#x}", c.zero), "0x0", &[]);
    }
    let checks = [("DEFAULT", c.default_const), ("Default::default()", c.default_trait), ("new()", c.new_fn)];
    for (k, (name, got)) in checks.iter().enumerate() {
        ctx.eval(OP_CONST, k + 1, 0, d.default.unwrap_or(0), 0, got.unwrap_or(u128::MAX), got.is_some() as u64);
        match (d.default, got) {
            (Some(dv), Some(g)) => {
                if dv != *g {
                    bad = true;
                    ctx.violate(VKind::Model, d, "consts", &format!("{} does not carry the declared default", name), None, OP_CONST, dv, 0, &format!("{:#x}", g), &format!("{:#x}", dv), &[]);
                }
            }
            (None, None) => {}
            (Some(dv), None) => {
                bad = true;
                ctx.violate(VKind::Invariant, d, "consts", &format!("{} missing although a default is declared", name), None, OP_CONST, dv, 0, "absent", "present", &[]);
            }
            (None, Some(_)) => {}
        }
    }
    ctx.eval(OP_CONST, 9, 0, c.size as u128, c.align as u128, 0, 0);
    if c.size != c.storage_size || c.align != c.storage_align || c.storage_size * 8 != d.storage_width as usize {
        bad = true;
        ctx.violate(VKind::Model, d, "consts", "size/alignment differ from the smallest native integer holding the base width", None, OP_CONST, 0, 0, &format!("size {} align {}", c.size, c.align), &format!("size {} align {} (u{})", c.storage_size, c.storage_align, d.storage_width), &[]);
    }
    if !bad && distinct.len() >= 2 {
        ctx.st.nontrivial += 1;
    }
    ctx.sample(
        J::obj()
            .s("case", d.id)
            .s("decl", d.decl)
            .n("raw_values_round_tripped", raws.len() as u64)
            .b("raw_exhaustive", exh)
            .s("default_declared", &d.default.map(|x| format!("{:#x}", x)).unwrap_or_else(|| "none".into()))
            .s("DEFAULT_observed", &c.default_const.map(|x| format!("{:#x}", x)).unwrap_or_else(|| "n/a".into()))
            .n("size_of", c.size as u64)
            .n("align_of", c.align as u64)
            .end(),
    );
}

// ------------------------------------------------------------------------------------------------
// Debug monitor (C19)
// ------------------------------------------------------------------------------------------------

pub fn mon_debug(s: &mut dyn Subject, ctx: &mut Ctx) {
    let d = s.desc();
    if !d.debug {
        return;
    }
    let bw = d.base_width;
    let mut rng = Rng::from_str(ctx.cfg.seed ^ 0x07, d.id);
    for fd in d.fields.iter() {
        ctx.st.fields += 1;
        ctx.st.shape(shape_of(d, fd));
    }
    let (raws, _) = gen::raws(bw, 0, &mut rng, &Cfg { exh_raw_bits: ctx.cfg.exh_raw_bits.min(10), ..ctx.cfg.clone() }, ctx.cfg.n_rand_raw);
    let mut texts = std::collections::HashSet::new();
    let mut bad = false;
    for &r in &raws {
        let reg = RefReg::from_raw(r, bw);
        let vals: Vec<Obs> = d.fields.iter().map(|fd| expect_obs(fd, reg.read(&fd.positions(0)))).collect();
        for pretty in [false, true] {
            let got = guard::run(|| {
                s.reset(r);
                s.debug(pretty)
            });
            let exp = s.shadow_debug(&vals, pretty);
            let got = match got {
                Err(m) => {
                    bad = true;
                    ctx.eval(OP_DEBUG, pretty as usize, 0, r, 0, 0, 7);
                    ctx.violate(VKind::UnexpectedPanic, d, "debug", "Debug formatting panicked", None, OP_DEBUG, r, pretty as u128, &format!("panic: {}", m), exp.as_deref().unwrap_or(""), &[]);
                    continue;
                }
                Ok(g) => g,
            };
            let mut h = Digest::new();
            for b in got.as_deref().unwrap_or("").bytes() {
                h.fold64(b as u64);
            }
            ctx.eval(OP_DEBUG, pretty as usize, 0, r, 0, h.0 as u128, 0);
            if got != exp {
                bad = true;
                ctx.violate(VKind::Model, d, "debug", "Debug text differs from the standard struct format over the getters' values", None, OP_DEBUG, r, pretty as u128, got.as_deref().unwrap_or("<none>"), exp.as_deref().unwrap_or("<none>"), &[]);
            }
            // function of raw_value() alone
            let again = guard::run(|| {
                s.rewrap();
                s.debug(pretty)
            });
            if let Ok(a) = again {
                if a != got {
                    bad = true;
                    ctx.violate(VKind::Invariant, d, "debug", "Debug text changes after new_with_raw_value(raw_value())", None, OP_DEBUG, r, pretty as u128, a.as_deref().unwrap_or("<none>"), got.as_deref().unwrap_or("<none>"), &[]);
                }
            }
            if let Some(g) = got {
                if texts.len() < 6 && texts.insert(g.clone()) && texts.len() == 3 && !pretty {
                    ctx.sample(J::obj().s("case", d.id).s("decl", d.decl).hex("raw", r).s("debug_text_equals_shadow_struct", &g).end());
                } else if texts.len() < 4096 {
                    texts.insert(g);
                }
            }
        }
    }
    if texts.len() >= 2 && !bad {
        ctx.st.nontrivial += 1;
    }
}

// ------------------------------------------------------------------------------------------------
// bitenum monitor (C07, C10 run-time part)
// ------------------------------------------------------------------------------------------------

pub fn mon_enum(e: &dyn EnumSubject, ctx: &mut Ctx) {
    let d: &EnumDesc = e.desc();
    let w = d.width;
    let m = mask(w);
    let mut rng = Rng::from_str(ctx.cfg.seed ^ 0x08, d.id);
    ctx.st.fields += 1;
    let storage_cls = if [8, 16, 32, 64].contains(&w) { "native" } else { "arb" };
    ctx.st.shape(format!("u{}|{}|{}", w, storage_cls, if d.exhaustive { "exhaustive" } else if d.conditional { "conditional" } else { "non-exhaustive" }));
    let exh = w <= if ctx.cfg.tiny { 5 } else { 16 };
    let xs: Vec<u128> = if exh {
        (0..=m).collect()
    } else {
        let mut v: Vec<u128> = vec![0, m, 1, m - 1, m / 2, m / 2 + 1];
        for &x in d.discrs {
            v.push(x);
            v.push(x.wrapping_add(1) & m);
            v.push(x.wrapping_sub(1) & m);
            v.push(x ^ (1u128 << (w - 1)));
            v.push(x & 0xff);
            v.push(x & 0xffff);
            v.push(x & 0xffff_ffff);
            // aliases of the discriminant: one extra bit set / cleared at every position
            for k in 0..w {
                v.push(x ^ (1u128 << k));
            }
            v.push(x.wrapping_add(0x100) & m);
            v.push(x.wrapping_add(0x1_0000) & m);
            v.push(x.wrapping_add(0x1_0000_0000) & m);
        }
        for k in 0..w {
            v.push(1u128 << k);
        }
        for _ in 0..(ctx.cfg.n_rand_raw * 4) {
            v.push(rng.bits128() & m);
        }
        v.sort();
        v.dedup();
        if ctx.cfg.tiny && v.len() > 48 {
            let step = v.len() / 48 + 1;
            v = v.into_iter().step_by(step).collect();
            v.extend(d.discrs.iter().take(8));
            v.sort();
            v.dedup();
        }
        v
    };
    if exh {
        *ctx.st.exhaustive_spaces.entry(format!("enum from-raw: all 2^{} values", w)).or_insert(0) += 1;
    }
    let (mut hit, mut miss, mut bad) = (false, false, false);
    for &x in &xs {
        let o = obs_of(guard::run(|| e.from_raw(x)), |o| o);
        ctx.eval_obs(OP_ENUM_FROM, 0, 0, x, 0, &o);
        let exp = match d.discrs.iter().position(|dv| *dv == x) {
            Some(ord) => Obs::Variant(ord as u32),
            None => Obs::Err(x),
        };
        match exp {
            Obs::Variant(_) => hit = true,
            _ => miss = true,
        }
        if o != exp {
            bad = true;
            let kind = if matches!(o, Obs::Panic(_)) { VKind::UnexpectedPanic } else { VKind::Model };
            let what = if d.exhaustive { "conversion of an enum accepted as exhaustive failed or returned the wrong variant" } else { "new_with_raw_value(x) is neither the variant with discriminant x nor Err(x)" };
            ctx.violate_enum(kind, d, what, OP_ENUM_FROM, x, &o.show(), &exp.show());
        }
    }
    for (ord, &dv) in d.discrs.iter().enumerate() {
        let r = guard::run(|| e.to_raw(ord as u32));
        match r {
            Err(mm) => {
                bad = true;
                ctx.eval(OP_ENUM_TO, 0, ord, 0, 0, 0, 7);
                ctx.violate_enum(VKind::UnexpectedPanic, d, "variant.raw_value() panicked", OP_ENUM_TO, dv, &format!("panic: {}", mm), &format!("{:#x}", dv));
            }
            Ok(v) => {
                ctx.eval(OP_ENUM_TO, 0, ord, 0, 0, v, 0);
                if v != dv {
                    bad = true;
                    ctx.violate_enum(VKind::Model, d, &format!("{}.raw_value() is not the discriminant", d.names[ord]), OP_ENUM_TO, dv, &format!("{:#x}", v), &format!("{:#x}", dv));
                } else {
                    let back = obs_of(guard::run(|| e.from_raw(v)), |o| o);
                    ctx.eval_obs(OP_ENUM_FROM, 0, ord, v, 1, &back);
                    if back != Obs::Variant(ord as u32) {
                        bad = true;
                        ctx.violate_enum(VKind::Model, d, "new_with_raw_value(v.raw_value()) is not v", OP_ENUM_FROM, v, &back.show(), &format!("variant#{}", ord));
                    }
                }
            }
        }
    }
    let full = d.discrs.len() as u128 == m.wrapping_add(1) && w < 128;
    if !bad && hit && (miss || full) {
        ctx.st.nontrivial += 1;
    }
    ctx.sample(
        J::obj()
            .s("enum", d.id)
            .s("decl", d.decl)
            .n("raw_values_converted", xs.len() as u64)
            .b("all_values", exh)
            .n("variants", d.discrs.len() as u64)
            .b("saw_hit", hit)
            .b("saw_miss", miss)
            .end(),
    );
}

impl<'a> Ctx<'a> {
    pub fn violate_enum(&mut self, kind: VKind, d: &EnumDesc, what: &str, op: u64, x: u128, observed: &str, expected: &str) {
        match kind {
            VKind::UnexpectedPanic => self.st.unexpected_panics += 1,
            VKind::Model => self.st.model_mismatches += 1,
            _ => {}
        }
        if self.cfg.judge_panics_only && kind != VKind::UnexpectedPanic {
            self.st.count(&format!("not-judged-here/{}", kind.name()), 1);
            return;
        }
        self.st.violation_count += 1;
        if self.st.violations.len() >= 24 {
            return;
        }
        self.st.violations.push(
            J::obj()
                .s("property", self.prop)
                .s("kind", kind.name())
                .s("monitor", "enum")
                .s("what", what)
                .s("profile", self.profile)
                .s("case", d.id)
                .s("family", "enum")
                .s("decl", d.decl)
                .s("op", op_name(op))
                .hex("raw", x)
                .s("observed", observed)
                .s("expected", expected)
                .end(),
        );
    }
}
