//! Panic recorder: every monitored operation runs inside `catch_unwind` with a silent hook.

use std::cell::RefCell;
use std::panic::{self, AssertUnwindSafe};
use std::sync::Once;

thread_local! {
    static LAST: RefCell<Option<String>> = const { RefCell::new(None) };
}
static INIT: Once = Once::new();

pub fn install() {
    INIT.call_once(|| {
        panic::set_hook(Box::new(|info| {
            let msg = if let Some(s) = info.payload().downcast_ref::<&str>() {
                (*s).to_string()
            } else if let Some(s) = info.payload().downcast_ref::<String>() {
                s.clone()
            } else {
                "<non-string panic payload>".to_string()
            };
            let loc = info.location().map(|l| format!(" at {}:{}", l.file(), l.line())).unwrap_or_default();
            LAST.with(|l| *l.borrow_mut() = Some(format!("{}{}", msg, loc)));
        }));
    });
}

/// Runs `f`; `Err(message)` when it panicked.
pub fn run<R>(f: impl FnOnce() -> R) -> Result<R, String> {
    match panic::catch_unwind(AssertUnwindSafe(f)) {
        Ok(r) => Ok(r),
        Err(_) => Err(LAST.with(|l| l.borrow_mut().take()).unwrap_or_else(|| "<panic>".to_string())),
    }
}
