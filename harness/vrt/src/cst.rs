//! C15: compile-time (CTFE) vs run-time vs reference-register comparison for generated `const fn` probes.

use crate::desc::{CaseDesc, EnumDesc, Kind};
use crate::model::{expect_obs, RefReg};
use crate::obs::Obs;
use crate::stats::{jstr, J};
use std::collections::BTreeMap;

#[derive(Clone, Copy, Debug)]
pub enum COp {
    /// new_with_raw_value(r).raw_value()
    Raw,
    /// ZERO.raw_value()
    Zero,
    /// DEFAULT.raw_value()
    Default,
    /// getter of field f, element i
    Get(usize, usize),
    /// with_f(i, v[slot]).raw_value()
    With(usize, usize, usize),
    /// builder().with_..(v[first..])...build().raw_value()
    Build(usize),
}

pub const ERR_TAG: u128 = 1u128 << 100;

/// encoding of a getter result as one u128 (mirrors the generated const probe)
pub fn encode(o: &Obs) -> u128 {
    match o {
        Obs::Bool(b) => *b as u128,
        Obs::Bits(v) => *v,
        Obs::Signed(v) => *v as u128,
        Obs::Variant(v) => *v as u128,
        Obs::Err(v) => ERR_TAG | *v,
        Obs::Nested(v) => *v,
        Obs::Panic(_) | Obs::Absent => u128::MAX,
    }
}

#[derive(Default)]
pub struct Report {
    pub evaluations: u64,
    pub nontrivial: u64,
    pub cases: u64,
    pub const_items: u64,
    pub violation_count: u64,
    pub violations: Vec<String>,
    pub samples: Vec<String>,
    pub ops: BTreeMap<String, u64>,
    pub kinds: BTreeMap<String, u64>,
}

fn op_name(op: &COp) -> &'static str {
    match op {
        COp::Raw => "new_with_raw_value+raw_value",
        COp::Zero => "ZERO",
        COp::Default => "DEFAULT",
        COp::Get(..) => "getter",
        COp::With(..) => "with_",
        COp::Build(..) => "builder chain + build()",
    }
}

fn pattern(d: &CaseDesc, f: usize, arg: u128) -> u128 {
    let fd = &d.fields[f];
    match fd.kind {
        Kind::Enum | Kind::OptEnum => fd.table.unwrap().discrs[arg as usize],
        _ => arg,
    }
}

pub fn expected(d: &CaseDesc, ops: &[COp], r: u128, v: &[u128]) -> Vec<u128> {
    let reg = RefReg::from_raw(r, d.base_width);
    ops.iter()
        .map(|op| match *op {
            COp::Raw => r,
            COp::Zero => 0,
            COp::Default => d.default.unwrap_or(0),
            COp::Get(f, i) => encode(&expect_obs(&d.fields[f], reg.read(&d.fields[f].positions(i as u32)))),
            COp::With(f, i, slot) => {
                let mut m = reg.clone();
                m.write(&d.fields[f].positions(i as u32), pattern(d, f, v[slot]));
                m.to_raw()
            }
            COp::Build(first) => {
                let mut m = RefReg::from_raw(d.default.unwrap_or(0), d.base_width);
                let mut slot = first;
                for (fi, fd) in d.fields.iter().enumerate() {
                    if !fd.writable {
                        continue;
                    }
                    for i in 0..fd.count() {
                        m.write(&fd.positions(i), pattern(d, fi, v[slot]));
                        slot += 1;
                    }
                }
                m.to_raw()
            }
        })
        .collect()
}

#[allow(clippy::too_many_arguments)]
pub fn check(d: &'static CaseDesc, ops: &[COp], inputs: &[(u128, &[u128])], ct: &[&[u128]], rt: &dyn Fn(u128, &[u128]) -> Vec<u128>, rep: &mut Report) {
    rep.cases += 1;
    let mut distinct = std::collections::HashSet::new();
    let mut bad = false;
    for fd in d.fields.iter() {
        *rep.kinds.entry(format!("{}{}{}", fd.kind.name(), if fd.is_list() { "/list" } else { "" }, if fd.array.is_some() { "[]" } else { "" })).or_insert(0) += 1;
    }
    for (k, (r, v)) in inputs.iter().enumerate() {
        rep.const_items += 1;
        let run = crate::guard::run(|| rt(std::hint::black_box(*r), std::hint::black_box(v)));
        let run = match run {
            Ok(x) => x,
            Err(m) => {
                bad = true;
                rep.violation_count += 1;
                rep.violations.push(J::obj().s("property", "C15").s("kind", "unexpected-panic").s("case", d.id).s("decl", d.decl).s("what", "the probe panicked at run time although the const evaluator produced a value").s("observed", &m).s("expected", "no panic").end());
                continue;
            }
        };
        let exp = expected(d, ops, *r, v);
        for (j, op) in ops.iter().enumerate() {
            rep.evaluations += 1;
            *rep.ops.entry(op_name(op).to_string()).or_insert(0) += 1;
            distinct.insert(ct[k][j]);
            if ct[k][j] != run[j] || run[j] != exp[j] {
                bad = true;
                rep.violation_count += 1;
                if rep.violations.len() < 16 {
                    let what = if ct[k][j] != run[j] { "the compile-time result differs from the run-time result" } else { "compile-time and run-time results agree with each other but not with the reference register" };
                    rep.violations.push(
                        J::obj()
                            .s("property", "C15")
                            .s("kind", if ct[k][j] != run[j] { "const-vs-runtime" } else { "model-mismatch" })
                            .s("case", d.id)
                            .s("decl", d.decl)
                            .s("what", what)
                            .s("op", &format!("{:?}", op))
                            .hex("raw", *r)
                            .strs("values", &v.iter().map(|x| format!("{:#x}", x)).collect::<Vec<_>>())
                            .s("observed", &format!("const: {:#x}, run time: {:#x}", ct[k][j], run[j]))
                            .s("expected", &format!("{:#x}", exp[j]))
                            .end(),
                    );
                }
            }
        }
    }
    if !bad && distinct.len() >= 2 {
        rep.nontrivial += 1;
    }
    if rep.samples.len() < 4 && !inputs.is_empty() {
        rep.samples.push(
            J::obj()
                .s("case", d.id)
                .s("decl", d.decl)
                .n("operations_in_probe", ops.len() as u64)
                .n("const_items", inputs.len() as u64)
                .hex("first_input_raw", inputs[0].0)
                .strs("first_const_result", &ct[0].iter().take(12).map(|x| format!("{:#x}", x)).collect::<Vec<_>>())
                .end(),
        );
    }
}

pub fn check_enum(d: &'static EnumDesc, inputs: &[(u128, u128)], ct: &[[u128; 2]], rt: &dyn Fn(u128, u128) -> [u128; 2], rep: &mut Report) {
    rep.cases += 1;
    *rep.kinds.entry("bitenum".to_string()).or_insert(0) += 1;
    let mut bad = false;
    let mut distinct = std::collections::HashSet::new();
    for (k, (x, ord)) in inputs.iter().enumerate() {
        rep.const_items += 1;
        let run = match crate::guard::run(|| rt(std::hint::black_box(*x), std::hint::black_box(*ord))) {
            Ok(r) => r,
            Err(m) => {
                bad = true;
                rep.violation_count += 1;
                rep.violations.push(J::obj().s("property", "C15").s("kind", "unexpected-panic").s("case", d.id).s("decl", d.decl).s("what", "enum conversion probe panicked at run time").s("observed", &m).s("expected", "no panic").end());
                continue;
            }
        };
        let e0 = match d.discrs.iter().position(|dv| dv == x) {
            Some(o) => o as u128,
            None => ERR_TAG | *x,
        };
        let exp = [e0, d.discrs[*ord as usize]];
        for j in 0..2 {
            rep.evaluations += 1;
            *rep.ops.entry(if j == 0 { "bitenum new_with_raw_value" } else { "bitenum raw_value" }.to_string()).or_insert(0) += 1;
            distinct.insert(ct[k][j]);
            if ct[k][j] != run[j] || run[j] != exp[j] {
                bad = true;
                rep.violation_count += 1;
                if rep.violations.len() < 16 {
                    rep.violations.push(
                        J::obj()
                            .s("property", "C15")
                            .s("kind", if ct[k][j] != run[j] { "const-vs-runtime" } else { "model-mismatch" })
                            .s("case", d.id)
                            .s("decl", d.decl)
                            .s("what", "bitenum conversion: compile-time, run-time and expected values disagree")
                            .hex("raw", *x)
                            .s("observed", &format!("const: {:#x}, run time: {:#x}", ct[k][j], run[j]))
                            .s("expected", &format!("{:#x}", exp[j]))
                            .end(),
                    );
                }
            }
        }
    }
    if !bad && distinct.len() >= 2 {
        rep.nontrivial += 1;
    }
}

pub fn main(fns: Vec<fn(&mut Report)>) {
    let args: Vec<String> = std::env::args().collect();
    let out = args.iter().position(|a| a == "--out").and_then(|p| args.get(p + 1).cloned());
    let profile = args.iter().position(|a| a == "--profile").and_then(|p| args.get(p + 1).cloned()).unwrap_or_default();
    crate::guard::install();
    let mut rep = Report::default();
    let n = fns.len();
    for f in fns {
        f(&mut rep);
    }
    let ops: Vec<String> = rep.ops.iter().map(|(k, v)| format!("{}:{}", jstr(k), v)).collect();
    let kinds: Vec<String> = rep.kinds.iter().map(|(k, v)| format!("{}:{}", jstr(k), v)).collect();
    let json = J::obj()
        .s("prop", "C15")
        .s("profile", &profile)
        .n("registered", n as u64)
        .n("evaluations", rep.evaluations)
        .n("nontrivial", rep.nontrivial)
        .n("cases", rep.cases)
        .n("const_items", rep.const_items)
        .n("violation_count", rep.violation_count)
        .arr("violations", &rep.violations)
        .arr("samples", &rep.samples)
        .raw("ops", &format!("{{{}}}", ops.join(",")))
        .raw("field_kinds", &format!("{{{}}}", kinds.join(",")))
        .end();
    match out {
        Some(p) => std::fs::write(p, json).expect("cannot write report"),
        None => println!("{}", json),
    }
}
