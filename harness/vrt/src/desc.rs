//! Static descriptions of generated cases. Emitted by the python generator from the same record as
//! the declaration text; nothing here is obtained from the macro.

#[derive(Clone, Copy, Debug, PartialEq, Eq)]
pub enum Kind {
    Bool,
    UInt,
    SInt,
    /// exhaustive bitenum: getter returns the variant
    Enum,
    /// `Option<E>`: getter returns `Result<E, primitive>`
    OptEnum,
    /// another bitfield (anything with new_with_raw_value / raw_value)
    Nested,
}

impl Kind {
    pub fn name(self) -> &'static str {
        match self {
            Kind::Bool => "bool",
            Kind::UInt => "uint",
            Kind::SInt => "sint",
            Kind::Enum => "enum",
            Kind::OptEnum => "optenum",
            Kind::Nested => "nested",
        }
    }
}

/// Discriminant table of an enum used as a field type (variant ordinal -> discriminant).
pub struct TypeTable {
    pub name: &'static str,
    pub width: u32,
    pub discrs: &'static [u128],
}

pub struct FieldDesc {
    pub name: &'static str,
    pub kind: Kind,
    /// number of bits the field selects
    pub width: u32,
    /// true when the field type is a native integer (u8..u128/i8..i128) or, for custom types, when
    /// the macro is expected to take its "regular int" path (width 8/16/32/64)
    pub native: bool,
    /// inclusive (lo, hi) in declaration order; ranges[0] supplies the least significant bits
    pub ranges: &'static [(u32, u32)],
    /// (count, stride)
    pub array: Option<(u32, u32)>,
    pub readable: bool,
    pub writable: bool,
    pub table: Option<&'static TypeTable>,
    /// attribute + field text as emitted
    pub decl: &'static str,
}

impl FieldDesc {
    pub fn count(&self) -> u32 {
        self.array.map(|a| a.0).unwrap_or(1)
    }
    pub fn stride(&self) -> u32 {
        self.array.map(|a| a.1).unwrap_or(0)
    }
    /// Bit positions of element `i`, least significant first.
    pub fn positions(&self, i: u32) -> Vec<u32> {
        let off = i * self.stride();
        let mut v = Vec::with_capacity(self.width as usize);
        for &(lo, hi) in self.ranges {
            let mut p = lo;
            while p <= hi {
                v.push(p + off);
                p += 1;
            }
        }
        v
    }
    /// a range list that names the same bit twice within one element: outside every write guarantee
    pub fn self_overlapping(&self) -> bool {
        let mut m = 0u128;
        for p in self.positions(0) {
            if p < 128 {
                if (m >> p) & 1 == 1 {
                    return true;
                }
                m |= 1u128 << p;
            }
        }
        false
    }
    pub fn is_list(&self) -> bool {
        self.ranges.len() > 1
    }
    /// number of distinct values that can be written through the API
    pub fn n_choices(&self) -> u128 {
        match self.kind {
            Kind::Enum | Kind::OptEnum => self.table.unwrap().discrs.len() as u128,
            _ => {
                if self.width >= 128 {
                    u128::MAX
                } else {
                    1u128 << self.width
                }
            }
        }
    }
    /// Maps a "choice" to (argument handed to the glue, bit pattern the write must store).
    pub fn enc(&self, choice: u128) -> (u128, u128) {
        match self.kind {
            Kind::Enum | Kind::OptEnum => {
                let t = self.table.unwrap();
                let ord = (choice % t.discrs.len() as u128) as usize;
                (ord as u128, t.discrs[ord])
            }
            _ => {
                let p = choice & crate::model::mask(self.width);
                (p, p)
            }
        }
    }
}

pub struct CaseDesc {
    pub id: &'static str,
    pub family: &'static str,
    /// full declaration text (helpers excluded)
    pub decl: &'static str,
    /// exposed width N of the base type
    pub base_width: u32,
    /// width of the storage integer (8/16/32/64/128)
    pub storage_width: u32,
    pub default: Option<u128>,
    pub fields: &'static [FieldDesc],
    pub has_builder: bool,
    pub debug: bool,
    /// free-form shape tags assigned by the generator (used for coverage histograms)
    pub tags: &'static [&'static str],
}

pub struct EnumDesc {
    pub id: &'static str,
    pub decl: &'static str,
    pub width: u32,
    /// declared `exhaustive = true`
    pub exhaustive: bool,
    pub conditional: bool,
    /// discriminants of the variants that exist in this build, by ordinal
    pub discrs: &'static [u128],
    pub names: &'static [&'static str],
    pub tags: &'static [&'static str],
}
