//! expmon — scans dumped macro expansions (one file per `bitfield` / `bitenum` invocation, written by the
//! `verif_hooks` feature of bitbybit) for unsafe constructs and for the heads of all paths.
//!
//! usage: expmon <dump-dir>      -> one JSON line per file on stdout

use proc_macro2::{TokenStream, TokenTree};
use std::collections::{BTreeMap, BTreeSet};
use syn::visit::Visit;

#[derive(Default)]
struct Scan {
    unsafe_hits: Vec<String>,
    heads: BTreeMap<String, u64>,
    macros: BTreeSet<String>,
    fns: u64,
    impls: u64,
    bodies: BTreeSet<String>,
}

fn jstr(s: &str) -> String {
    let mut o = String::from("\"");
    for c in s.chars() {
        match c {
            '"' => o.push_str("\\\""),
            '\\' => o.push_str("\\\\"),
            '\n' => o.push_str("\\n"),
            c if (c as u32) < 0x20 => o.push_str(&format!("\\u{:04x}", c as u32)),
            c => o.push(c),
        }
    }
    o.push('"');
    o
}

impl Scan {
    fn head(&mut self, s: String) {
        *self.heads.entry(s).or_insert(0) += 1;
    }
    /// raw token scan (used for macro arguments, which syn leaves unparsed)
    fn tokens(&mut self, ts: TokenStream) {
        let v: Vec<TokenTree> = ts.into_iter().collect();
        let mut i = 0;
        while i < v.len() {
            match &v[i] {
                TokenTree::Group(g) => self.tokens(g.stream()),
                TokenTree::Ident(id) => {
                    let s = id.to_string();
                    if s == "unsafe" {
                        self.unsafe_hits.push("`unsafe` token inside macro arguments".to_string());
                    }
                    // ident :: ident  => path head, unless this ident itself follows `::`
                    let follows_colons = i >= 2 && matches!((&v[i - 1], &v[i - 2]), (TokenTree::Punct(a), TokenTree::Punct(b)) if a.as_char() == ':' && b.as_char() == ':');
                    let precedes_colons = i + 2 < v.len() && matches!((&v[i + 1], &v[i + 2]), (TokenTree::Punct(a), TokenTree::Punct(b)) if a.as_char() == ':' && b.as_char() == ':');
                    if precedes_colons && !follows_colons {
                        self.head(s);
                    }
                }
                _ => {}
            }
            i += 1;
        }
    }
}

fn normalise(ts: TokenStream, out: &mut String) {
    for t in ts {
        match t {
            TokenTree::Group(g) => {
                out.push('(');
                normalise(g.stream(), out);
                out.push(')');
            }
            TokenTree::Literal(_) => out.push_str("# "),
            TokenTree::Ident(i) => {
                let s = i.to_string();
                // type-like identifiers with digits (u24, extract_u32, ...) are normalised too
                if s.chars().any(|c| c.is_ascii_digit()) {
                    out.push_str("T# ");
                } else {
                    out.push_str(&s);
                    out.push(' ');
                }
            }
            TokenTree::Punct(p) => out.push(p.as_char()),
        }
    }
}

impl<'ast> Visit<'ast> for Scan {
    fn visit_expr_unsafe(&mut self, n: &'ast syn::ExprUnsafe) {
        self.unsafe_hits.push("unsafe block".into());
        syn::visit::visit_expr_unsafe(self, n);
    }
    fn visit_signature(&mut self, n: &'ast syn::Signature) {
        self.fns += 1;
        if n.unsafety.is_some() {
            self.unsafe_hits.push(format!("unsafe fn {}", n.ident));
        }
        if n.abi.is_some() {
            self.unsafe_hits.push(format!("fn {} with an explicit ABI", n.ident));
        }
        syn::visit::visit_signature(self, n);
    }
    fn visit_impl_item_fn(&mut self, n: &'ast syn::ImplItemFn) {
        let mut s = String::new();
        normalise(quote::ToTokens::to_token_stream(&n.block), &mut s);
        self.bodies.insert(s);
        syn::visit::visit_impl_item_fn(self, n);
    }
    fn visit_item_impl(&mut self, n: &'ast syn::ItemImpl) {
        self.impls += 1;
        if n.unsafety.is_some() {
            self.unsafe_hits.push("unsafe impl".into());
        }
        syn::visit::visit_item_impl(self, n);
    }
    fn visit_item_trait(&mut self, n: &'ast syn::ItemTrait) {
        if n.unsafety.is_some() {
            self.unsafe_hits.push("unsafe trait".into());
        }
        syn::visit::visit_item_trait(self, n);
    }
    fn visit_item_mod(&mut self, n: &'ast syn::ItemMod) {
        if n.unsafety.is_some() {
            self.unsafe_hits.push("unsafe mod".into());
        }
        syn::visit::visit_item_mod(self, n);
    }
    fn visit_item_foreign_mod(&mut self, n: &'ast syn::ItemForeignMod) {
        self.unsafe_hits.push("extern block".into());
        syn::visit::visit_item_foreign_mod(self, n);
    }
    fn visit_item_static(&mut self, n: &'ast syn::ItemStatic) {
        if matches!(n.mutability, syn::StaticMutability::Mut(_)) {
            self.unsafe_hits.push(format!("static mut {}", n.ident));
        }
        syn::visit::visit_item_static(self, n);
    }
    fn visit_item_extern_crate(&mut self, n: &'ast syn::ItemExternCrate) {
        self.head(format!("extern crate {}", n.ident));
        syn::visit::visit_item_extern_crate(self, n);
    }
    fn visit_attribute(&mut self, n: &'ast syn::Attribute) {
        let p = n.path();
        if p.is_ident("unsafe") || p.is_ident("no_mangle") || p.is_ident("export_name") || p.is_ident("link_section") || p.is_ident("link") {
            self.unsafe_hits.push(format!("attribute #[{}]", quote::ToTokens::to_token_stream(p)));
        }
        syn::visit::visit_attribute(self, n);
    }
    fn visit_path(&mut self, n: &'ast syn::Path) {
        if n.segments.len() >= 2 || n.leading_colon.is_some() {
            if let Some(first) = n.segments.first() {
                self.head(first.ident.to_string());
            }
        }
        syn::visit::visit_path(self, n);
    }
    fn visit_use_tree(&mut self, n: &'ast syn::UseTree) {
        match n {
            syn::UseTree::Path(p) => self.head(p.ident.to_string()),
            syn::UseTree::Name(nm) => self.head(nm.ident.to_string()),
            syn::UseTree::Rename(r) => self.head(r.ident.to_string()),
            _ => {}
        }
        // only the head of a use tree matters
    }
    fn visit_macro(&mut self, n: &'ast syn::Macro) {
        self.macros.insert(quote::ToTokens::to_token_stream(&n.path).to_string().replace(' ', ""));
        self.tokens(n.tokens.clone());
        syn::visit::visit_macro(self, n);
    }
}

fn main() {
    let dir = std::env::args().nth(1).expect("usage: expmon <dump-dir>");
    let mut names: Vec<_> = std::fs::read_dir(&dir).expect("cannot read dump dir").filter_map(|e| e.ok()).map(|e| e.path()).filter(|p| p.extension().map(|x| x == "rs").unwrap_or(false)).collect();
    names.sort();
    for p in names {
        let text = std::fs::read_to_string(&p).unwrap_or_default();
        let fname = p.file_name().unwrap().to_string_lossy().to_string();
        match syn::parse_file(&text) {
            Err(e) => println!("{{\"file\":{},\"parse_error\":{}}}", jstr(&fname), jstr(&e.to_string())),
            Ok(f) => {
                let mut s = Scan::default();
                s.visit_file(&f);
                let heads: Vec<String> = s.heads.iter().map(|(k, v)| format!("{}:{}", jstr(k), v)).collect();
                let un: Vec<String> = s.unsafe_hits.iter().map(|x| jstr(x)).collect();
                let mac: Vec<String> = s.macros.iter().map(|x| jstr(x)).collect();
                let bodies: Vec<String> = s.bodies.iter().map(|x| jstr(x)).collect();
                println!(
                    "{{\"file\":{},\"unsafe\":[{}],\"heads\":{{{}}},\"macros\":[{}],\"fns\":{},\"impls\":{},\"bodies\":[{}]}}",
                    jstr(&fname),
                    un.join(","),
                    heads.join(","),
                    mac.join(","),
                    s.fns,
                    s.impls,
                    bodies.join(",")
                );
            }
        }
    }
}
