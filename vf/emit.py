"""Rust emitter: declaration text and the thin Subject glue, from catalog records."""
from . import catalog, rules


def under(n):
    """native integer type that backs arbitrary_int::uN"""
    return "u%d" % catalog.storage_of(n)


def lit(value, radix="hex"):
    if radix == "dec":
        return str(value)
    if radix == "oct":
        return oct(value)
    if radix == "under":
        return "{:_}".format(value)
    if radix == "bin":
        return bin(value)
    return hex(value)


def rstr(s):
    """Rust string literal"""
    return '"' + s.replace("\\", "\\\\").replace('"', '\\"').replace("\n", "\\n") + '"'


def base_type_text(case):
    return case.get("base_text") or ("u%d" % case["base"])


# ------------------------------------------------------------------------------------------------
# declarations
# ------------------------------------------------------------------------------------------------

def range_text(lo, hi, in_list=False):
    if lo == hi and in_list:
        return str(lo)
    return "%d..=%d" % (lo, hi)


def field_attr(f):
    if f.get("attr_text"):
        return f["attr_text"]
    rs = f["ranges"]
    if f["form"] == "bit":
        head = "bit(%d" % rs[0][0]
    elif f["form"] == "bits":
        head = "bits(%d..=%d" % rs[0]
    else:
        head = "bits([%s]" % ", ".join(range_text(lo, hi, True) for lo, hi in rs)
    parts = [head]
    if f["access"]:
        parts.append(f["access"])
    a = f["array"]
    if a is not None and a["explicit"]:
        parts.append("stride %s %d" % (a["syntax"], a["stride"]) if a["syntax"] == "=" else "stride: %d" % a["stride"])
    if f.get("stride_on_scalar") is not None:
        parts.append("stride = %d" % f["stride_on_scalar"])
    order = f.get("arg_order")
    if order:
        # the arguments of the attribute in another order (the range need not come first)
        name, first = parts[0].split("(", 1)
        args = [first] + parts[1:]
        args = [args[i] for i in order if i < len(args)] + [a for i, a in enumerate(args) if i not in order]
        return "#[" + name + "(" + ", ".join(args) + ")]"
    return "#[" + ", ".join(parts) + ")]"


def field_type(f):
    t = f.get("ty_text") or f["ty"]
    if f["array"] is not None:
        return "[%s; %d]" % (t, f["array"]["count"])
    return t


def field_decl(f, vis=""):
    lines = []
    after = []
    if f.get("doc"):
        form = f.get("doc_form", "///")
        if form == "///":
            lines.append("/// " + f["doc"])
        elif form == "attr":
            lines.append("#[doc = %s]" % rstr(f["doc"]))
        elif form == "after":
            # the documentation follows the #[bits] attribute
            after.append("/// " + f["doc"])
        elif form == "blank-first":
            # the documentation starts with an empty line
            lines.append("///")
            lines.append("/// " + f["doc"])
        elif form == "blank-mid":
            lines.append("/// " + f["doc"][:5])
            lines.append("///")
            lines.append("/// " + (f["doc"][5:] or "."))
        elif form == "split":
            lines.append("/// " + f["doc"][:4])
            after.append("#[doc = %s]" % rstr(f["doc"][4:] or "."))
        else:
            lines.append("#[doc = concat!(%s, %s)]" % (rstr(f["doc"][:3]), rstr(f["doc"][3:])))
    for a in f.get("extra_attrs", []):
        lines.append(a)
    lines.append(field_attr(f))
    lines += after
    lines.append("%s%s: %s," % (vis, f["name"], field_type(f)))
    return lines


def enum_decl(e, vis="pub ", docs=False, derive=True):
    lines = []
    if e.get("prelude"):
        lines.append(e["prelude"])
    if docs:
        lines.append("/// enum %s" % e["name"])
    args = [e.get("bits_text") or ("u%d" % e["bits"])]
    if e.get("no_storage"):
        args = []
    if e["exhaustive"] is not None:
        args.append("exhaustive %s %s" % ("=" if e["syntax"] == "=" else ":", e["exhaustive"]) if e["syntax"] == "=" else "exhaustive: %s" % e["exhaustive"])
    if e.get("args_rev"):
        args.reverse()      # `exhaustive` written before the storage type
    lines.append("#[bitenum(%s)]" % ", ".join(args))
    if derive:
        lines.append("#[derive(Debug, PartialEq, Eq)]")
    if e.get("repr"):
        lines.append("#[repr(%s)]" % e["repr"])
    elif e.get("repr64"):
        lines.append("#[repr(u64)]")
    lines.append("%senum %s {" % (vis, e["name"]))
    for vi, v in enumerate(e["variants"]):
        doc_after = docs and v["cfg"] is not None and vi % 2 == 1      # documentation written after the #[cfg] attribute
        if docs and not doc_after:
            lines.append("    /// variant %s" % v["name"])
        for a in v.get("pre_attrs", []):
            lines.append("    " + a)
        if v["cfg"] is True:
            lines.append("    #[cfg(all())]")
        elif v["cfg"] is False:
            lines.append("    #[cfg(any())]")
        if doc_after:
            lines.append("    /// variant %s" % v["name"])
        for a in v.get("post_attrs", []):
            lines.append("    " + a)
        if v.get("discr_text") is not None:
            lines.append("    %s%s," % (v["name"], v["discr_text"]))
        else:
            lines.append("    %s = %s," % (v["name"], lit(v["discr"], v.get("radix", "dec"))))
    lines.append("}")
    return lines


def bitfield_decl(case, vis=None, docs=False):
    """lines of the declaration (without helpers)"""
    lines = []
    vis = (case.get("vis", "pub") + " ") if vis is None else vis
    d = case["default"]
    const_name = None
    if d is not None and d["form"] == "const":
        const_name = d.get("const_name") or "DEFAULT_%s" % case["name"].upper()
        cty = "u%d" % case["storage"]
        if docs:
            lines.append("/// default value")
        lines.append("%sconst %s: %s = %s;" % (vis, const_name, cty, lit(d["value"], d.get("radix", "hex"))))
    if case.get("doc") or docs:
        lines.append("/// " + (case.get("doc") or ("bitfield %s" % case["name"])))
    args = [base_type_text(case)]
    if case.get("no_base"):
        args = []
    if d is not None:
        val = const_name if const_name else (d.get("text") or lit(d["value"], d.get("radix", "hex")))
        args.append("default = %s" % val if d["syntax"] == "=" else "default: %s" % val)
    if case["debug"]:
        args.append("debug")
    frag = case.get("via_macro")
    body = []
    if frag and d is not None:
        # the declaration is the body of a macro_rules! macro; base type and default value arrive as fragments
        args = ["$b", ("default = $d" if d["syntax"] == "=" else "default: $d")] + args[2:]
    body.append("#[bitfield(%s)]" % ", ".join(args))
    for extra in case.get("extra_attrs", []):
        body.append(extra)
    if case.get("unit_struct") and not case["fields"]:
        body.append("%sstruct %s;" % (vis, case["name"]))
        return lines + body
    body.append("%sstruct %s {" % (vis, case["name"]))
    for f in case["fields"]:
        f2 = f
        if docs and not f.get("doc"):
            f2 = dict(f, doc="field %s" % f["name"].replace("r#", ""), doc_form=("///", "attr", "concat", "///", "after", "split", "blank-first", "blank-mid")[(len(f["name"]) + f["ranges"][0][0]) % 8])
        for l in field_decl(f2, vis=("pub " if case.get("pub_fields") else "")):
            body.append("    " + l)
    body.append("}")
    if case.get("user_impls"):
        # the user's own trait impls for the generated type: part of the program, so every compile-outcome unit sees them next to the declaration
        T, n = case["name"], case["base"]
        body += ["impl ::core::convert::From<u%d> for %s { fn from(v: u%d) -> Self { %s::new_with_raw_value(v) } }" % (n, T, n, T),
                 "impl ::core::convert::From<%s> for u%d { fn from(v: %s) -> Self { v.raw_value() } }" % (T, n, T),
                 "impl ::core::cmp::PartialEq for %s { fn eq(&self, o: &Self) -> bool { self.raw_value() == o.raw_value() } }" % T,
                 "impl ::core::fmt::Display for %s { fn fmt(&self, f: &mut ::core::fmt::Formatter<'_>) -> ::core::fmt::Result { f.write_str(\"reg\") } }" % T,
                 "impl ::core::hash::Hash for %s { fn hash<H: ::core::hash::Hasher>(&self, h: &mut H) { self.raw_value().hash(h) } }" % T,
                 "impl ::core::ops::Not for %s { type Output = Self; fn not(self) -> Self { self } }" % T]
    if frag and d is not None:
        mname = "declare_%s" % case["name"].lower()
        doc_lines = [l for l in lines if l.startswith("///") and l is lines[-1]]
        if doc_lines:
            lines.pop()
        lines.append("macro_rules! %s { ($b:ty, $d:%s) => {" % (mname, frag))
        lines += ["    " + l for l in doc_lines + body]
        lines.append("} }")
        lines.append("%s!(%s, %s);" % (mname, base_type_text(case), val))
        return lines
    return lines + body


def helper_decl(h, docs=False):
    if h["kind"] == "enum":
        return enum_decl(h, docs=docs)
    out = []
    for hh in h.get("helpers", []):
        out += helper_decl(hh, docs=docs)
    return out + bitfield_decl(h, docs=docs)


def helpers_block(case, docs=False):
    """helper type declarations of a case; with `path_types` they live in a module `inner` and the fields name them through that path"""
    lines = []
    for h in case.get("helpers", []):
        lines += helper_decl(h, docs=docs)
    if case.get("path_types") and lines:
        inner = (["/// helper types reached through a path"] if docs else []) + ["pub mod inner {", "    #![allow(dead_code, non_camel_case_types, unused_imports)]", "    use arbitrary_int::*;", "    use bitbybit::{bitenum, bitfield};"]
        inner += ["    " + l for l in lines] + ["}", "#[allow(unused_imports)]", "use self::inner::*;"]
        return inner
    return lines


def decl_text(case, docs=False):
    lines = helpers_block(case, docs=docs)
    lines += bitfield_decl(case, docs=docs)
    return "\n".join(lines)


# ------------------------------------------------------------------------------------------------
# conversions
# ------------------------------------------------------------------------------------------------

def base_from_u128(n, v):
    """expression of the base type uN from a u128 expression"""
    if catalog.is_native(n):
        return "(%s as u%d)" % (v, n)
    return "u%d::new(%s as %s)" % (n, v, under(n))


BB = "::core::hint::black_box"


def base_to_u128(n, x):
    """widening of a generated function's integer result. The result is materialised (black_box, a const fn) before it is widened: rustc 1.95.0's
    x86-64 backend was observed to turn `u32 as u128` into a sign extension when the u32 came out of an inlined byte insert (toolchain/zext-miscompile-1.95)"""
    if catalog.is_native(n):
        return "(%s(%s) as u128)" % (BB, x)
    return "(%s(%s.value()) as u128)" % (BB, x)


def helper_by_name(case, name):
    for h in case.get("helpers", []):
        if h["name"] == name:
            return h
    raise KeyError(name)


def conv_in(case, f, v):
    """Rust expression of the field's setter argument type from a u128 expression `v`"""
    k = f["kind"]
    w = f["width"]
    if k == "bool":
        return "(%s != 0)" % v
    if k == "uint":
        return base_from_u128(w, v)
    if k == "sint":
        return "(vrt::to_signed(%s, %d) as i%d)" % (v, w, w)
    if k in ("enum", "optenum"):
        return "%s_from_ord(%s)" % (f["tyref"].lower(), v)
    if k == "nested":
        return "%s::new_with_raw_value(%s)" % (f["tyref"], base_from_u128(w, v))
    raise ValueError(k)


def conv_out(case, f, x):
    """Obs expression from the getter's result expression `x`"""
    k = f["kind"]
    w = f["width"]
    if k == "bool":
        return "Obs::Bool(%s)" % x
    if k == "uint":
        return "Obs::Bits(%s)" % base_to_u128(w, x)
    if k == "sint":
        return "Obs::Signed(%s(%s) as i128)" % (BB, x)
    if k == "enum":
        return "Obs::Variant(%s_ord(%s))" % (f["tyref"].lower(), x)
    if k == "optenum":
        return "match %s { Ok(v) => Obs::Variant(%s_ord(v)), Err(e) => Obs::Err(%s(e) as u128) }" % (x, f["tyref"].lower(), BB)
    if k == "nested":
        return "Obs::Nested(%s)" % base_to_u128(w, "%s.raw_value()" % x)
    raise ValueError(k)


def shadow_type(f):
    k = f["kind"]
    if k == "optenum":
        w = f["width"]
        prim = "u8" if w <= 8 else "u16" if w <= 16 else "u32" if w <= 32 else "u64"
        return "Result<super::%s, %s>" % (f["tyref"], prim)
    if k in ("enum", "nested"):
        return "super::%s" % f["tyref"]
    return f["ty"]


def shadow_val(case, f, k_):
    k = f["kind"]
    w = f["width"]
    o = "vals[%d]" % k_
    if k == "bool":
        return "%s.as_bool()" % o
    if k == "uint":
        return base_from_u128(w, "%s.as_bits()" % o)
    if k == "sint":
        return "(%s.as_signed() as i%d)" % (o, w)
    if k == "enum":
        return "%s_from_ord(%s.as_variant())" % (f["tyref"].lower(), o)
    if k == "optenum":
        prim = "u8" if w <= 8 else "u16" if w <= 16 else "u32" if w <= 32 else "u64"
        return "match &%s { Obs::Variant(v) => Ok(%s_from_ord(*v as u128)), Obs::Err(e) => Err(*e as %s), _ => unreachable!() }" % (o, f["tyref"].lower(), prim)
    if k == "nested":
        return "%s::new_with_raw_value(%s)" % (f["tyref"], base_from_u128(w, "%s.as_nested()" % o))
    raise ValueError(k)


def method_name(f, prefix):
    n = f["name"]
    if n.startswith("r#"):
        return prefix + n[2:] if prefix else n
    return prefix + n


def enum_helpers_glue(e):
    """ordinal <-> variant conversion for an enum helper (present variants only)"""
    name = e["name"]
    low = name.lower()
    present = catalog.enum_present(e)
    lines = ["#[allow(dead_code)]", "fn %s_ord(e: %s) -> u32 { match e {" % (low, name)]
    for k, v in enumerate(present):
        lines.append("    %s::%s => %d," % (name, v["name"], k))
    lines.append("} }")
    lines.append("#[allow(dead_code)]")
    lines.append("fn %s_from_ord(v: u128) -> %s { match v {" % (low, name))
    for k, v in enumerate(present):
        lines.append("    %d => %s::%s," % (k, name, v["name"]))
    lines.append('    _ => panic!("glue: bad variant ordinal"),')
    lines.append("} }")
    return lines


def table_static(e):
    present = catalog.enum_present(e)
    return "static TT_%s: TypeTable = TypeTable { name: %s, width: %d, discrs: &[%s] };" % (
        e["name"].upper(), rstr(e["name"]), e["bits"], ", ".join(hex(v["discr"]) for v in present))


KIND_RS = {"bool": "Kind::Bool", "uint": "Kind::UInt", "sint": "Kind::SInt", "enum": "Kind::Enum", "optenum": "Kind::OptEnum", "nested": "Kind::Nested"}


def field_desc_rs(case, f):
    table = "None"
    if f["kind"] in ("enum", "optenum"):
        table = "Some(&TT_%s)" % f["tyref"].upper()
    a = f["array"]
    return ("FieldDesc { name: %s, kind: %s, width: %d, native: %s, ranges: &[%s], array: %s, readable: %s, writable: %s, table: %s, decl: %s }" % (
        rstr(f["name"].replace("r#", "")), KIND_RS[f["kind"]], f["width"], "true" if f["native"] else "false",
        ", ".join("(%d, %d)" % r for r in f["ranges"]),
        "Some((%d, %d))" % (a["count"], a["stride"]) if a else "None",
        "true" if "r" in f["access"] else "false", "true" if "w" in f["access"] else "false", table,
        rstr(field_attr(f) + " " + f["name"] + ": " + field_type(f))))


class Section:
    """line ranges of one case inside a generated file, for mapping diagnostics"""

    def __init__(self, case_id):
        self.case_id = case_id
        self.parts = []  # (name, first_line, last_line) 1-based, relative to the module start

    def shift(self, off):
        self.parts = [(n, a + off, b + off) for n, a, b in self.parts]
        return self


def subject_module(case):
    """returns (lines, Section) for `pub mod c_<id> { ... }`"""
    cid = case["id"]
    L = []
    sec = Section(cid)

    def mark(name, start):
        sec.parts.append((name, start + 1, len(L)))

    L.append("pub mod c_%s {" % cid)
    L.append("    #![allow(dead_code, non_camel_case_types, deprecated, unused_imports, unused_variables, unreachable_patterns, clippy::all)]")
    L.append("    use arbitrary_int::*;")
    L.append("    use bitbybit::{bitenum, bitfield};")
    L.append("    use vrt::{CaseDesc, ConstObs, FieldDesc, Kind, Obs, Subject, TypeTable};")
    s0 = len(L)
    for l in helpers_block(case):
        L.append("    " + l)
    mark("helpers", s0)
    s0 = len(L)
    if case.get("byvalue_trait"):
        # the declaration lives in a nested module in which a trait with by-value methods named like the readable fields is implemented for the struct;
        # only the struct (and its default constant) is re-exported, so the glue below never sees the trait
        L.append("    pub mod decl_scope {")
        L.append("        #![allow(dead_code, non_camel_case_types, unused_imports)]")
        L.append("        use arbitrary_int::*;")
        L.append("        use bitbybit::{bitenum, bitfield};")
        L.append("        use super::*;")
        for l in bitfield_decl(case):
            L.append("        " + l)
        L.append("        pub struct VfHijacked;")
        L.append("        impl ::core::fmt::Debug for VfHijacked { fn fmt(&self, f: &mut ::core::fmt::Formatter<'_>) -> ::core::fmt::Result { f.write_str(\"HIJACKED-BY-TRAIT-METHOD\") } }")
        L.append("        pub trait VfByValue: Sized {")
        for f in case["fields"]:
            if "r" in f["access"]:
                L.append("            fn %s(self%s) -> VfHijacked { VfHijacked }" % (f["name"], ", _i: usize" if f["array"] else ""))
        L.append("        }")
        L.append("        impl VfByValue for %s {}" % case["name"])
        L.append("    }")
        exports = [case["name"]]
        if case["default"] is not None and case["default"]["form"] == "const":
            exports.append(case["default"].get("const_name") or "DEFAULT_%s" % case["name"].upper())
        L.append("    pub use self::decl_scope::{%s};" % ", ".join(exports))
    else:
        for l in bitfield_decl(case):
            L.append("    " + l)
    mark("decl", s0)
    s0 = len(L)
    enums = [h for h in case.get("helpers", []) if h["kind"] == "enum"]
    for e in enums:
        for l in enum_helpers_glue(e):
            L.append("    " + l)
        L.append("    " + table_static(e))
    T = case["name"]
    n = case["base"]
    S = "u%d" % case["storage"]
    has_builder = rules.builder_expected(case)
    decl = "\n".join(bitfield_decl(case))
    L.append("    static FIELDS: [FieldDesc; %d] = [" % len(case["fields"]))
    for f in case["fields"]:
        L.append("        " + field_desc_rs(case, f) + ",")
    L.append("    ];")
    L.append("    static DESC: CaseDesc = CaseDesc { id: %s, family: %s, decl: %s, base_width: %d, storage_width: %d, default: %s, fields: &FIELDS, has_builder: %s, debug: %s, tags: &[%s] };" % (
        rstr(cid), rstr(case["family"]), rstr(decl), n, case["storage"],
        "Some(%s)" % hex(case["default"]["value"]) if case["default"] else "None",
        "true" if has_builder else "false", "true" if case["debug"] else "false",
        ", ".join(rstr(t) for t in case.get("tags", []))))
    L.append("    pub struct G(%s);" % T)
    L.append("    pub fn ctor() -> Box<dyn Subject> { Box::new(G(%s::ZERO)) }" % T)
    L.append("    fn is_copy<X: Copy>() {}")
    L.append("    impl Subject for G {")
    L.append("        fn desc(&self) -> &'static CaseDesc { &DESC }")
    L.append("        fn reset(&mut self, raw: u128) { self.0 = %s::new_with_raw_value(%s); }" % (T, base_from_u128(n, "raw")))
    L.append("        fn raw(&self) -> u128 { let r: u%d = self.0.raw_value(); %s }" % (n, base_to_u128(n, "r")))
    L.append("        fn storage(&self) -> u128 { vrt::peek::<%s, %s>(&self.0) }" % (T, S))
    L.append("        fn rewrap(&mut self) { self.0 = %s::new_with_raw_value(self.0.raw_value()); }" % T)
    mark("glue-core", s0)
    # get
    s0 = len(L)
    L.append("        fn get(&self, f: usize, i: usize) -> Obs { match f {")
    for k, f in enumerate(case["fields"]):
        if "r" in f["access"]:
            call = "self.0.%s(%s)" % (f["name"], "i" if f["array"] else "")
            L.append("            %d => { let x = %s; %s }" % (k, call, conv_out(case, f, "x")))
    L.append("            _ => Obs::Absent,")
    L.append("        } }")
    mark("glue-get", s0)
    s0 = len(L)
    L.append("        fn with(&mut self, f: usize, i: usize, v: u128) -> u128 { let n = match f {")
    for k, f in enumerate(case["fields"]):
        if "w" in f["access"]:
            L.append("            %d => self.0.%s(%s%s)," % (k, method_name(f, "with_"), "i, " if f["array"] else "", conv_in(case, f, "v")))
    L.append('            _ => panic!("glue: field not writable"),')
    L.append("        }; let recv = self.storage(); self.0 = n; recv }")
    L.append("        fn set(&mut self, f: usize, i: usize, v: u128) { match f {")
    for k, f in enumerate(case["fields"]):
        if "w" in f["access"]:
            L.append("            %d => self.0.%s(%s%s)," % (k, method_name(f, "set_"), "i, " if f["array"] else "", conv_in(case, f, "v")))
    L.append('            _ => panic!("glue: field not writable"),')
    L.append("        } }")
    mark("glue-put", s0)
    s0 = len(L)
    if has_builder:
        L.append("        fn build(&mut self, args: &[Vec<u128>]) -> bool {")
        L.append("            self.0 = %s::builder()" % T)
        k = 0
        for f in case["fields"]:
            if "w" not in f["access"]:
                continue
            if f["array"]:
                elems = ", ".join(conv_in(case, f, "args[%d][%d]" % (k, i)) for i in range(f["array"]["count"]))
                L.append("                .%s([%s])" % (method_name(f, "with_"), elems))
            else:
                L.append("                .%s(%s)" % (method_name(f, "with_"), conv_in(case, f, "args[%d][0]" % k)))
            k += 1
        L.append("                .build();")
        L.append("            true")
        L.append("        }")
    else:
        L.append("        fn build(&mut self, _args: &[Vec<u128>]) -> bool { false }")
    mark("glue-build", s0)
    s0 = len(L)
    if case["debug"]:
        L.append('        fn debug(&self, pretty: bool) -> Option<String> { Some(if pretty { format!("{:#?}", self.0) } else { format!("{:?}", self.0) }) }')
        L.append("        fn shadow_debug(&self, vals: &[Obs], pretty: bool) -> Option<String> {")
        L.append("            let s = shadow::%s {" % T)
        for k, f in enumerate(case["fields"]):
            L.append("                %s: %s," % (f["name"], shadow_val(case, f, k)))
        L.append("            };")
        L.append('            Some(if pretty { format!("{:#?}", s) } else { format!("{:?}", s) })')
        L.append("        }")
    else:
        L.append("        fn debug(&self, _pretty: bool) -> Option<String> { None }")
        L.append("        fn shadow_debug(&self, _vals: &[Obs], _pretty: bool) -> Option<String> { None }")
    mark("glue-debug", s0)
    s0 = len(L)
    L.append("        fn consts(&self) -> ConstObs {")
    L.append("            is_copy::<%s>();" % T)
    L.append("            let mut c = ConstObs::default();")
    L.append("            { let z: %s = %s::ZERO; let r: u%d = z.raw_value(); c.zero = %s; }" % (T, T, n, base_to_u128(n, "r")))
    if case["default"]:
        L.append("            { const D: %s = %s::DEFAULT; let r: u%d = D.raw_value(); c.default_const = Some(%s); }" % (T, T, n, base_to_u128(n, "r")))
        L.append("            { let d: %s = Default::default(); let r: u%d = d.raw_value(); c.default_trait = Some(%s); }" % (T, n, base_to_u128(n, "r")))
        L.append("            { let d: %s = %s::new(); let r: u%d = d.raw_value(); c.new_fn = Some(%s); }" % (T, T, n, base_to_u128(n, "r")))
    L.append("            c.size = core::mem::size_of::<%s>(); c.align = core::mem::align_of::<%s>();" % (T, T))
    L.append("            c.storage_size = core::mem::size_of::<%s>(); c.storage_align = core::mem::align_of::<%s>();" % (S, S))
    L.append("            c")
    L.append("        }")
    L.append("    }")
    mark("glue-consts", s0)
    if case["debug"]:
        s0 = len(L)
        L.append("    mod shadow {")
        L.append("        #![allow(dead_code, non_camel_case_types)]")
        L.append("        use arbitrary_int::*;")
        L.append("        #[derive(Debug)]")
        L.append("        pub struct %s {" % T)
        for f in case["fields"]:
            L.append("            pub %s: %s," % (f["name"], shadow_type(f)))
        L.append("        }")
        L.append("    }")
        mark("glue-debug", s0)
    L.append("}")
    return L, sec


def enum_module(case):
    """stand-alone bitenum case -> (lines, Section)"""
    cid = case["id"]
    e = case["enum"]
    L = []
    sec = Section(cid)
    L.append("pub mod c_%s {" % cid)
    L.append("    #![allow(dead_code, non_camel_case_types, unused_imports, unreachable_patterns, clippy::all)]")
    L.append("    use arbitrary_int::*;")
    L.append("    use bitbybit::{bitenum, bitfield};")
    L.append("    use vrt::{EnumDesc, EnumSubject, Obs};")
    s0 = len(L)
    for l in enum_decl(e):
        L.append("    " + l)
    sec.parts.append(("decl", s0 + 1, len(L)))
    s0 = len(L)
    n = e["bits"]
    present = catalog.enum_present(e)
    for l in enum_helpers_glue(e):
        L.append("    " + l)
    L.append("    static DESC: EnumDesc = EnumDesc { id: %s, decl: %s, width: %d, exhaustive: %s, conditional: %s, discrs: &[%s], names: &[%s], tags: &[%s] };" % (
        rstr(cid), rstr("\n".join(enum_decl(e))), n, "true" if e["exhaustive"] == "true" else "false",
        "true" if e["exhaustive"] == "conditional" else "false",
        ", ".join(hex(v["discr"]) for v in present), ", ".join(rstr(v["name"]) for v in present),
        ", ".join(rstr(t) for t in case.get("tags", []))))
    L.append("    pub struct G;")
    L.append("    pub fn ctor() -> Box<dyn EnumSubject> { Box::new(G) }")
    L.append("    impl EnumSubject for G {")
    L.append("        fn desc(&self) -> &'static EnumDesc { &DESC }")
    name = e["name"]
    low = name.lower()
    if e["exhaustive"] == "true":
        L.append("        fn from_raw(&self, x: u128) -> Obs { let v: %s = %s::new_with_raw_value(%s); Obs::Variant(%s_ord(v)) }" % (name, name, base_from_u128(n, "x"), low))
    else:
        prim = "u8" if n <= 8 else "u16" if n <= 16 else "u32" if n <= 32 else "u64"
        L.append("        fn from_raw(&self, x: u128) -> Obs { let r: Result<%s, %s> = %s::new_with_raw_value(%s); match r { Ok(v) => Obs::Variant(%s_ord(v)), Err(e) => Obs::Err(::core::hint::black_box(e) as u128) } }" % (name, prim, name, base_from_u128(n, "x"), low))
    L.append("        fn to_raw(&self, ord: u32) -> u128 { let r: u%d = %s_from_ord(ord as u128).raw_value(); %s }" % (n, low, base_to_u128(n, "r")))
    L.append("    }")
    L.append("}")
    sec.parts.append(("glue-enum", s0 + 1, len(L)))
    return L, sec


def case_module(case):
    if case["kind"] == "enum":
        return enum_module(case)
    return subject_module(case)


def shard_source(cases):
    """one shard crate's lib.rs: modules + register(); returns (text, sections with absolute lines)"""
    L = ["// generated by /verif/vf/emit.py -- do not edit", "#![allow(clippy::all)]", ""]
    sections = []
    for c in cases:
        lines, sec = case_module(c)
        sections.append(sec.shift(len(L)))
        L += lines
        L.append("")
    L.append("pub fn register(r: &mut vrt::runner::Registry) {")
    for c in cases:
        if c["kind"] == "enum":
            L.append("    r.enums.push(c_%s::ctor);" % c["id"])
        else:
            L.append("    r.subjects.push(c_%s::ctor);" % c["id"])
    L.append("}")
    return "\n".join(L) + "\n", sections
