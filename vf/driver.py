"""Dispatch: property id -> check implementation."""
import json
import subprocess

from . import build, cprops, props
from .build import Inconclusive


def run(prop, tier, seed, groups=None):
    if prop in props.RUNTIME:
        return props.runtime_check(prop, tier, seed, groups=groups)
    fn = getattr(cprops, "check_" + prop.lower(), None)
    if fn is not None:
        return fn(tier, seed)
    raise Inconclusive("no check registered for %s" % prop)


def setup(seed):
    """pre-builds what the quick tier needs"""
    with build.Lock():
        build.snapshot()
        ws = build.Workspace("quick", seed)
        groups = sorted({g for v in props.RUNTIME.values() for g in v[0] if g in build.catalog.FAMILIES})
        ws.generate(groups)
        for prof in props.tier_profiles("quick"):
            ws.build_resilient(groups, prof)
    print("setup done")
    return 0


def replay(prop, path):
    with open(path) as f:
        rec = json.load(f)
    if rec.get("replay_kind") == "runtime":
        tier, seed, group, prof, case = rec["tier"], rec["seed"], rec["group"], rec["profile"], rec["case"]
        with build.Lock():
            build.snapshot()
            ws = build.Workspace(tier, seed)
            ws.generate([group])
            ws.build_resilient([group], prof)
        rep = ws.run(group, prof, prop, extra=["--only-case", case])
        vs = rep["stats"]["violations"]
        print("replayed case %s (%s, profile %s): %d violation(s)" % (case, group, prof, rep["stats"]["violation_count"]))
        for v in vs[:5]:
            print(json.dumps(v, indent=1))
        if vs:
            print("VIOLATION property=%s replay=%s" % (prop, path))
            return 1
        return 0
    if rec.get("replay_kind") == "digest":
        tier, seed, group, case = rec["tier"], rec["seed"], rec["group"], rec["case"]
        profs = props.tier_profiles(tier)
        traces = {}
        with build.Lock():
            build.snapshot()
            ws = build.Workspace(tier, seed)
            ws.generate([group])
            for prof in profs:
                ws.build_resilient([group], prof)
        for prof in profs:
            rep = ws.run(group, prof, prop, extra=["--only-case", case, "--trace"])
            traces[prof] = [l for l in rep["stdout"].splitlines() if l.startswith("TRACE")]
        base = traces[profs[0]]
        differs = False
        for prof in profs[1:]:
            t = traces[prof]
            for k, (a, b) in enumerate(zip(base, t)):
                if a != b:
                    print("first differing observation (#%d) of case %s:\n  %s: %s\n  %s: %s" % (k, case, profs[0], a, prof, b))
                    differs = True
                    break
            else:
                if len(base) != len(t):
                    print("traces of %s and %s have different lengths (%d vs %d)" % (profs[0], prof, len(base), len(t)))
                    differs = True
        if differs:
            print("VIOLATION property=%s replay=%s" % (prop, path))
            return 1
        print("replayed case %s under %s: %d observations each, identical" % (case, profs, len(base)))
        return 0
    raise Inconclusive("unknown replay kind in %s" % path)
