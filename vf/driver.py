"""Dispatch: property id -> check implementation."""
import json
import subprocess

from . import build, cprops, props
from .build import Inconclusive


def run(prop, tier, seed, groups=None):
    if prop in props.RUNTIME:
        return props.runtime_check(prop, tier, seed, groups=groups)
    fn = getattr(cprops, "check_" + prop.lower(), None)
    if fn is not None:
        return fn(tier, seed)
    raise Inconclusive("no check registered for %s" % prop)


def setup(seed):
    """pre-builds what the quick tier needs"""
    with build.Lock():
        build.snapshot()
        ws = build.Workspace("quick", seed)
        groups = sorted({g for v in props.RUNTIME.values() for g in v[0] if g in build.catalog.FAMILIES}) + ["constf"]
        ws.generate(groups)
        for prof in props.tier_profiles("quick"):
            ws.build_resilient(groups, prof)
        from . import compile_mon
        compile_mon.artifacts("macrodev")
        cprops.build_expmon()
    print("setup done")
    return 0


def replay(prop, path):
    replay_path = path
    with open(path) as f:
        rec = json.load(f)
    if rec.get("replay_kind") == "runtime-build":
        tier, seed, group, prof, case = rec["tier"], rec["seed"], rec["group"], rec["profile"], rec["case"]
        with build.Lock():
            build.snapshot()
            ws = build.Workspace(tier, seed)
            ws.generate([group])
            dropped = ws.build_resilient([group], prof)
        hits = [d for d in dropped if d["case"] == case]
        print("rebuilt group %s (%s): case %s %s" % (group, prof, case, "does not compile: %s" % hits[0]["message"][:200] if hits else "compiles"))
        if hits:
            print("VIOLATION property=%s replay=%s" % (prop, replay_path))
            return 1
        return 0
    if rec.get("replay_kind") == "runtime":
        tier, seed, group, prof, case = rec["tier"], rec["seed"], rec["group"], rec["profile"], rec["case"]
        with build.Lock():
            build.snapshot()
            ws = build.Workspace(tier, seed)
            ws.generate([group])
            ws.build_resilient([group], prof)
        rep = ws.run(group, prof, prop, extra=["--only-case", case])
        vs = rep["stats"]["violations"]
        print("replayed case %s (%s, profile %s): %d violation(s)" % (case, group, prof, rep["stats"]["violation_count"]))
        for v in vs[:5]:
            print(json.dumps(v, indent=1))
        if vs:
            print("VIOLATION property=%s replay=%s" % (prop, path))
            return 1
        return 0
    if rec.get("replay_kind") == "compile-pair":
        from . import compile_mon as cm
        import os
        with build.Lock():
            build.snapshot()
            art = cm.artifacts(rec.get("macro_profile", "macrodev"))
            d = os.path.join(cm.CM, "replay")
            os.makedirs(d, exist_ok=True)
            path = os.path.join(d, "replay.rs")
            build.write_if_changed(path, "\n".join(cm.HEADER) + "\n" + rec["program"] + "\n")
            diags = cm.rustc_batch(path, art, d)
        lines = rec["program"].split("\n")
        off = len(cm.HEADER)
        def part_of(line):
            cur = None
            for k, l in enumerate(lines):
                if l.strip().startswith("pub mod pos"):
                    cur = "pos"
                elif l.strip().startswith("pub mod neg"):
                    cur = "neg"
                if k + 1 + off >= line:
                    return cur
            return cur
        failed = set()
        for m in diags:
            for ln in cm.diag_lines(m, "replay.rs"):
                failed.add(part_of(ln))
        print("recompiled both twins in one crate: parts with errors: %s" % sorted(x for x in failed if x))
        violated = ("pos" in failed) if rec.get("expect") == "pos-accept" else ("neg" not in failed)
        if violated:
            print("VIOLATION property=%s replay=%s" % (prop, replay_path))
            return 1
        return 0
    if rec.get("replay_kind") == "compile":
        from . import compile_mon as cm
        import os
        with build.Lock():
            build.snapshot()
            art = cm.artifacts(rec.get("macro_profile", "macrodev"))
            d = os.path.join(cm.CM, "replay")
            os.makedirs(d, exist_ok=True)
            header = cprops.NO_STD_HEADER if rec.get("header") == "no_std" else cm.HEADER
            prog = rec["program"]
            if rec.get("header") == "no_std":
                prog = prog.split("\n", 4)[-1] if prog.startswith("#![no_std]") else prog
            path = os.path.join(d, "replay.rs")
            build.write_if_changed(path, "\n".join(header) + "\n" + prog + "\n")
            diags = cm.rustc_batch(path, art, d)
        print("recompiled the recorded program: %d error(s)" % len(diags))
        for m in diags[:3]:
            print("  ", (m.get("code") or {}).get("code"), m.get("message", "")[:200])
        violated = bool(diags) if rec.get("expect") == "accept" else not diags
        print("expected: %s" % ("compiles" if rec.get("expect") == "accept" else "compile error"))
        if violated:
            print("VIOLATION property=%s replay=%s" % (prop, replay_path))
            return 1
        return 0
    if rec.get("replay_kind") == "dump-scan":
        import os
        import subprocess
        expmon = cprops.build_expmon()
        d = os.path.join(build.OUT, "cm", "replay-dump")
        os.makedirs(d, exist_ok=True)
        for f in os.listdir(d):
            os.remove(os.path.join(d, f))
        with open(os.path.join(d, "replay.rs"), "w") as f:
            f.write(rec["program"])
        out = subprocess.run([expmon, d], stdout=subprocess.PIPE).stdout.decode()
        print(out[:2000])
        r = json.loads(out.splitlines()[0])
        if r.get("unsafe") or any(h not in cprops.ALLOWED_HEADS for h in r.get("heads", {}) if h in ("std", "alloc")):
            print("VIOLATION property=%s replay=%s" % (prop, path))
            return 1
        return 0
    if rec.get("replay_kind") == "const-harness":
        res = cprops.check_c15(rec["tier"], rec["seed"])
        hits = [r for _, r in res.violations if r.get("case") == rec["case"]]
        print("re-ran the const harness: %d violation(s) for case %s" % (len(hits), rec["case"]))
        for h in hits[:3]:
            print(json.dumps({k: h.get(k) for k in ("kind", "what", "observed", "expected")}))
        if hits:
            print("VIOLATION property=%s replay=%s" % (prop, path))
            return 1
        return 0
    if rec.get("replay_kind") == "digest":
        tier, seed, group, case = rec["tier"], rec["seed"], rec["group"], rec["case"]
        profs = props.tier_profiles(tier)
        traces = {}
        with build.Lock():
            build.snapshot()
            ws = build.Workspace(tier, seed)
            ws.generate([group])
            for prof in profs:
                ws.build_resilient([group], prof)
        for prof in profs:
            rep = ws.run(group, prof, prop, extra=["--only-case", case, "--trace"])
            traces[prof] = [l for l in rep["stdout"].splitlines() if l.startswith("TRACE")]
        base = traces[profs[0]]
        differs = False
        for prof in profs[1:]:
            t = traces[prof]
            for k, (a, b) in enumerate(zip(base, t)):
                if a != b:
                    print("first differing observation (#%d) of case %s:\n  %s: %s\n  %s: %s" % (k, case, profs[0], a, prof, b))
                    differs = True
                    break
            else:
                if len(base) != len(t):
                    print("traces of %s and %s have different lengths (%d vs %d)" % (profs[0], prof, len(base), len(t)))
                    differs = True
        if differs:
            print("VIOLATION property=%s replay=%s" % (prop, path))
            return 1
        print("replayed case %s under %s: %d observations each, identical" % (case, profs, len(base)))
        return 0
    raise Inconclusive("unknown replay kind in %s" % path)
