"""Snapshot of /repo, generated cargo workspace, builds and runs."""
import fcntl
import hashlib
import json
import os
import shutil
import subprocess
import sys
import time

from . import catalog, emit, emit_const

VERIF = os.path.dirname(os.path.dirname(os.path.abspath(__file__)))
REPO = os.environ.get("VERIF_REPO", "/repo")
OUT = os.environ.get("VERIF_OUT") or os.path.join(VERIF, "out")
SNAP = os.path.join(OUT, "snap")
TARGET = os.environ.get("VERIF_TARGET") or os.path.join(VERIF, "target")
EVIDENCE = os.environ.get("VERIF_EVIDENCE_DIR") or os.path.join(VERIF, "evidence")
VRT = os.path.join(VERIF, "harness", "vrt")

ENV = dict(os.environ, CARGO_NET_OFFLINE="true", RUST_BACKTRACE="0", CARGO_TERM_COLOR="never")
ENV.pop("BITBYBIT_VERIF_DUMP_DIR", None)
ENV.pop("RUSTFLAGS", None)

PROFILES = {
    "dbg": dict(inherits="dev", opt=0, overflow=True, dassert=True),
    "rel": dict(inherits="release", opt=3, overflow=False, dassert=False),
    "opt3chk": dict(inherits="release", opt=3, overflow=True, dassert=True),
    "opt0nochk": dict(inherits="dev", opt=0, overflow=False, dassert=False),
}


class Inconclusive(Exception):
    pass


def log(*a):
    print("[vf]", *a, file=sys.stderr, flush=True)


class Lock:
    def __init__(self, name="build"):
        os.makedirs(OUT, exist_ok=True)
        self.path = os.path.join(OUT, ".%s.lock" % name)

    def __enter__(self):
        self.f = open(self.path, "w")
        fcntl.flock(self.f, fcntl.LOCK_EX)
        return self

    def __exit__(self, *a):
        fcntl.flock(self.f, fcntl.LOCK_UN)
        self.f.close()


def write_if_changed(path, text):
    data = text.encode() if isinstance(text, str) else text
    try:
        with open(path, "rb") as f:
            if f.read() == data:
                return False
    except FileNotFoundError:
        pass
    os.makedirs(os.path.dirname(path), exist_ok=True)
    tmp = path + ".tmp%d" % os.getpid()
    with open(tmp, "wb") as f:
        f.write(data)
    os.replace(tmp, path)
    return True


def snapshot():
    """content-sync /repo/bitbybit (+Cargo.lock) into out/snap so that a file's mtime changes iff its content changed"""
    src_root = os.path.join(REPO, "bitbybit")
    dst_root = os.path.join(SNAP, "bitbybit")
    if not os.path.isdir(src_root):
        raise Inconclusive("no bitbybit crate under %s" % REPO)
    wanted = set()
    changed = 0
    for dirpath, dirnames, filenames in os.walk(src_root):
        dirnames[:] = [d for d in dirnames if d not in ("target", ".git")]
        for fn in filenames:
            sp = os.path.join(dirpath, fn)
            rel = os.path.relpath(sp, src_root)
            wanted.add(rel)
            with open(sp, "rb") as f:
                data = f.read()
            if write_if_changed(os.path.join(dst_root, rel), data):
                changed += 1
    for dirpath, dirnames, filenames in os.walk(dst_root):
        for fn in filenames:
            rel = os.path.relpath(os.path.join(dirpath, fn), dst_root)
            if rel not in wanted:
                os.remove(os.path.join(dirpath, fn))
                changed += 1
    # Cargo.lock is git-ignored in the repository: a fresh worktree has none. It only pins registry versions for the harness crates.
    for cand in (os.path.join(REPO, "Cargo.lock"), "/repo/Cargo.lock"):
        if os.path.exists(cand):
            with open(cand, "rb") as f:
                write_if_changed(os.path.join(SNAP, "Cargo.lock"), f.read())
            break
    else:
        if not os.path.exists(os.path.join(SNAP, "Cargo.lock")):
            raise Inconclusive("no Cargo.lock found under %s" % REPO)
    return changed


def repo_fingerprint():
    h = hashlib.sha256()
    root = os.path.join(SNAP, "bitbybit")
    for dirpath, dirnames, filenames in sorted(os.walk(root)):
        dirnames.sort()
        for fn in sorted(filenames):
            p = os.path.join(dirpath, fn)
            h.update(os.path.relpath(p, root).encode())
            with open(p, "rb") as f:
                h.update(f.read())
    return h.hexdigest()[:16]


def profile_toml():
    out = []
    for name, p in PROFILES.items():
        out.append("[profile.%s]\ninherits = \"%s\"\nopt-level = %d\noverflow-checks = %s\ndebug-assertions = %s\ndebug = false\nincremental = false\ncodegen-units = 16\npanic = \"unwind\"\n" % (
            name, p["inherits"], p["opt"], "true" if p["overflow"] else "false", "true" if p["dassert"] else "false"))
    return "\n".join(out)


def shard_plan(cases, n_core, n_seed):
    """distribute cases over shards, balancing by field count; core and seeded cases never share a shard"""
    def weight(c):
        return 1 + len(c.get("fields", [])) + (len(c["enum"]["variants"]) // 8 if c["kind"] == "enum" else 0)
    plans = []
    for seeded, n in ((False, n_core), (True, n_seed)):
        sel = [c for c in cases if bool(c.get("seeded")) == seeded]
        if not sel:
            continue
        n = max(1, min(n, len(sel)))
        bins = [[] for _ in range(n)]
        loads = [0] * n
        for c in sorted(sel, key=weight, reverse=True):
            k = loads.index(min(loads))
            bins[k].append(c)
            loads[k] += weight(c)
        for k, b in enumerate(bins):
            b.sort(key=lambda c: c["id"])
            plans.append((("s" if seeded else "c") + "%02d" % k, b))
    return plans


GROUP_SHARDS = {"single": (14, 4), "array": (8, 2), "nc": (6, 2), "enumf": (4, 2), "custom": (8, 2), "mixed": (6, 3), "base": (4, 2), "bld": (6, 2), "dbgf": (4, 2), "probe11": (2, 1), "constf": (10, 4), "mirif": (4, 1)}


class Workspace:
    """generated cargo workspace for one tier: shard crates + one runner binary per group"""

    def __init__(self, tier, seed):
        self.tier = tier
        self.seed = seed
        self.root = os.path.join(OUT, "ws", tier)
        self.target = os.path.join(TARGET, tier)
        self.sections = {}   # crate name -> list of Section
        self.cases = {}      # group -> list of cases

    def crate_name(self, group, shard):
        return "g_%s_%s" % (group, shard)

    def generate(self, groups, drop=None):
        """(re)generates the sources for `groups`; `drop` = set of case ids to leave out"""
        drop = drop or set()
        members = []
        existing = self._existing_members()
        for g in groups:
            is_const = g == "constf"
            src_cases = emit_const.const_cases(self.tier, self.seed) if is_const else catalog.family(g, self.tier, self.seed)
            # "compile-only" cases are known not to compile (known finding D4); they are judged by the compile-outcome monitor only
            cases = [c for c in src_cases if c["id"] not in drop and "compile-only" not in c.get("tags", [])]
            self.cases[g] = cases
            n_core, n_seed = GROUP_SHARDS[g]
            if self.tier == "thorough":
                n_core, n_seed = n_core * 2, n_seed * 2
            plan = shard_plan(cases, n_core, n_seed)
            names = []
            for shard, cs in plan:
                name = self.crate_name(g, shard)
                names.append(name)
                if is_const:
                    text, sections = emit_const.shard_source(cs, nk=4 if self.tier == "quick" else 16, seed=self.seed)
                else:
                    text, sections = emit.shard_source(cs)
                self.sections[name] = sections
                d = os.path.join(self.root, name)
                write_if_changed(os.path.join(d, "src", "lib.rs"), text)
                write_if_changed(os.path.join(d, "Cargo.toml"), self._shard_toml(name))
            rn = "run_%s" % g
            d = os.path.join(self.root, rn)
            deps = "\n".join('%s = { path = "../%s" }' % (n, n) for n in names)
            write_if_changed(os.path.join(d, "Cargo.toml"), '[package]\nname = "%s"\nversion = "0.1.0"\nedition = "2021"\n\n[dependencies]\nvrt = { path = "%s" }\n%s\n' % (rn, VRT, deps))
            if is_const:
                main = "fn main() {\n    let mut r: Vec<fn(&mut vrt::cst::Report)> = Vec::new();\n" + "".join("    %s::register(&mut r);\n" % n for n in names) + "    vrt::cst::main(r);\n}\n"
            else:
                main = "fn main() {\n    let mut r = vrt::runner::Registry { subjects: Vec::new(), enums: Vec::new() };\n" + "".join("    %s::register(&mut r);\n" % n for n in names) + "    vrt::runner::main(r);\n}\n"
            write_if_changed(os.path.join(d, "src", "main.rs"), main)
            # remove stale shard crates of this group
            for old in existing:
                if old.startswith("g_%s_" % g) and old not in names:
                    shutil.rmtree(os.path.join(self.root, old), ignore_errors=True)
        all_members = sorted(self._existing_members())
        write_if_changed(os.path.join(self.root, "Cargo.toml"), '[workspace]\nresolver = "2"\nmembers = [%s]\n\n%s' % (", ".join('"%s"' % m for m in all_members), profile_toml()))
        lock = os.path.join(self.root, "Cargo.lock")
        if not os.path.exists(lock):
            shutil.copy(os.path.join(SNAP, "Cargo.lock"), lock)

    def _existing_members(self):
        if not os.path.isdir(self.root):
            return []
        return [d for d in os.listdir(self.root) if os.path.isfile(os.path.join(self.root, d, "Cargo.toml"))]

    def _shard_toml(self, name):
        return ('[package]\nname = "%s"\nversion = "0.1.0"\nedition = "2021"\n\n[dependencies]\nvrt = { path = "%s" }\n'
                'bitbybit = { path = "%s", features = ["verif_hooks"] }\narbitrary-int = "1.3.0"\n' % (name, VRT, os.path.join(SNAP, "bitbybit")))

    def build(self, groups, profile, timeout=3600):
        """cargo build of the runner binaries; returns (ok, diagnostics) where diagnostics are rustc JSON messages"""
        cmd = ["cargo", "build", "--offline", "--profile", profile, "--message-format=json", "--keep-going", "-j", "16"]
        for g in groups:
            cmd += ["-p", "run_%s" % g]
        env = dict(ENV, CARGO_TARGET_DIR=self.target)
        t0 = time.time()
        try:
            p = subprocess.run(cmd, cwd=self.root, env=env, stdout=subprocess.PIPE, stderr=subprocess.PIPE, timeout=timeout)
        except subprocess.TimeoutExpired:
            raise Inconclusive("cargo build watchdog (%ds) fired" % timeout)
        diags = []
        for line in p.stdout.decode(errors="replace").splitlines():
            if not line.startswith("{"):
                continue
            try:
                m = json.loads(line)
            except ValueError:
                continue
            if m.get("reason") == "compiler-message" and m["message"].get("level") in ("error", "error: internal compiler error"):
                diags.append((m.get("target", {}).get("name"), m["message"]))
        log("cargo build %s %s: rc=%d, %d error diagnostics, %.1fs" % (profile, ",".join(groups), p.returncode, len(diags), time.time() - t0))
        if p.returncode != 0 and not diags:
            raise Inconclusive("cargo build failed without rustc diagnostics: " + p.stderr.decode(errors="replace")[-2000:])
        return p.returncode == 0, diags

    def binary(self, group, profile):
        return os.path.join(self.target, profile, "run_%s" % group)

    def locate(self, crate, message):
        """maps a rustc diagnostic to (case_id, part) using the expansion chain back to the shard file"""
        secs = self.sections.get(crate)
        if not secs:
            return None

        def lines_of(span):
            out = []
            while span is not None:
                fn = span.get("file_name", "")
                if fn.endswith("src/lib.rs") and crate in fn.replace("-", "_") or fn == "src/lib.rs":
                    out.append(span["line_start"])
                exp = span.get("expansion")
                span = exp.get("span") if exp else None
            return out
        cands = []
        for sp in message.get("spans", []):
            if sp.get("is_primary"):
                cands = lines_of(sp) + cands
            else:
                cands += lines_of(sp)
        for ch in message.get("children", []):
            for sp in ch.get("spans", []):
                cands += lines_of(sp)
        for line in cands:
            for sec in secs:
                for name, a, b in sec.parts:
                    if a <= line <= b:
                        return sec.case_id, name
        return None

    def build_resilient(self, groups, profile):
        """Builds; cases whose code does not compile are dropped (and reported) so that one bad case never
        takes the harness down. Returns list of dropped (case_id, part, code, message)."""
        dropped = []
        drop_ids = set()
        for attempt in range(4):
            ok, diags = self.build(groups, profile)
            if ok:
                return dropped
            new = 0
            for crate, msg in diags:
                loc = self.locate(crate, msg)
                code = (msg.get("code") or {}).get("code")
                if loc is None:
                    continue
                cid, part = loc
                if cid not in drop_ids:
                    drop_ids.add(cid)
                    new += 1
                dropped.append(dict(case=cid, part=part, code=code, message=msg.get("message", "")[:300], crate=crate))
            if new == 0:
                first = diags[0][1].get("rendered", diags[0][1].get("message", ""))[:1500] if diags else ""
                raise Inconclusive("build of %s/%s failed and the errors cannot be attributed to a generated case: %s" % (",".join(groups), profile, first))
            log("dropping %d cases that do not compile and rebuilding" % new)
            self.generate(groups, drop=drop_ids)
        raise Inconclusive("build did not converge after dropping non-compiling cases")

    def miri_run(self, group, prop, n_slices=16, extra=(), timeout=5400):
        """runs the group's runner under Miri (cargo +nightly miri run), sharded over n_slices processes; returns list of reports"""
        import concurrent.futures
        target = os.path.join(TARGET, "miri")
        env = dict(ENV, CARGO_TARGET_DIR=target)
        # build once (also builds the proc macro natively with the nightly toolchain)
        base = ["cargo", "+nightly", "miri", "run", "--offline", "-q", "-p", "run_%s" % group, "--"]

        def one(k):
            cmd = base + ["--prop", prop, "--tier", self.tier, "--seed", str(self.seed), "--profile", "miri", "--threads", "1", "--miri-workload", "--slice", "%d/%d" % (k, n_slices)] + list(extra)
            try:
                p = subprocess.run(cmd, cwd=self.root, env=env, stdout=subprocess.PIPE, stderr=subprocess.PIPE, timeout=timeout)
            except subprocess.TimeoutExpired:
                raise Inconclusive("Miri watchdog (%ds) fired for %s slice %d" % (timeout, group, k))
            out = p.stdout.decode(errors="replace")
            line = [l for l in out.splitlines() if l.startswith('{"prop"')]
            if p.returncode != 0 or not line:
                err = p.stderr.decode(errors="replace")
                if "Undefined Behavior" in err or "error: unsupported operation" in err:
                    return dict(miri_error=err[-3000:], slice=k)
                raise Inconclusive("Miri run failed for %s slice %d (rc=%d): %s" % (group, k, p.returncode, err[-1200:]))
            rep = json.loads(line[-1])
            rep["group"] = group
            rep["slice"] = k
            return rep
        t0 = time.time()
        first = one(0)   # serialises the build
        with concurrent.futures.ThreadPoolExecutor(max_workers=16) as ex:
            rest = list(ex.map(one, range(1, n_slices)))
        log("miri %s %s: %d slices, %.1fs" % (group, prop, n_slices, time.time() - t0))
        return [first] + rest

    def run(self, group, profile, prop, extra=(), timeout=3600):
        out = os.path.join(OUT, "run", "%s-%s-%s-%s-%d.json" % (prop, self.tier, group, profile, os.getpid()))
        os.makedirs(os.path.dirname(out), exist_ok=True)
        cmd = [self.binary(group, profile), "--prop", prop, "--tier", self.tier, "--seed", str(self.seed), "--profile", profile, "--out", out] + list(extra)
        t0 = time.time()
        try:
            p = subprocess.run(cmd, env=ENV, stdout=subprocess.PIPE, stderr=subprocess.PIPE, timeout=timeout)
        except subprocess.TimeoutExpired:
            raise Inconclusive("runner watchdog (%ds) fired for %s/%s" % (timeout, group, profile))
        if p.returncode != 0:
            raise Inconclusive("runner %s/%s exited with %d: %s" % (group, profile, p.returncode, p.stderr.decode(errors="replace")[-1500:]))
        with open(out) as f:
            rep = json.load(f)
        os.remove(out)
        rep["wall_s"] = time.time() - t0
        rep["group"] = group
        rep["stdout"] = p.stdout.decode(errors="replace") if extra and "--trace" in extra else ""
        return rep
