"""Compile-outcome monitor: runs the real macro inside rustc on generated programs and observes
accept / reject per case from rustc's JSON diagnostics."""
import concurrent.futures
import glob
import json
import os
import shutil
import subprocess
import time

from . import build
from .build import Inconclusive, log

CM = os.path.join(build.OUT, "cm")

MACRO_PROFILES = {
    # the proc macro is a host artifact: its settings come from build-override
    "macrodev": dict(inherits="dev", opt=0, overflow="true", dassert="true"),
    "macrorel": dict(inherits="release", opt=3, overflow="false", dassert="false"),
}


def _proj_toml():
    prof = ""
    for name, p in MACRO_PROFILES.items():
        prof += ("[profile.%s]\ninherits = \"%s\"\n[profile.%s.build-override]\nopt-level = %d\noverflow-checks = %s\ndebug-assertions = %s\n\n"
                 % (name, p["inherits"], name, p["opt"], p["overflow"], p["dassert"]))
    return ('[package]\nname = "cmproj"\nversion = "0.1.0"\nedition = "2021"\n\n[dependencies]\n'
            'bitbybit = { path = "%s", features = ["verif_hooks"] }\narbitrary-int = "1.3.0"\n\n[workspace]\n\n%s' % (os.path.join(build.SNAP, "bitbybit"), prof))


def artifacts(macro_profile="macrodev"):
    """builds bitbybit (with hooks) + arbitrary-int; returns dict(bitbybit=.so, arbitrary_int=.rlib, deps=dir)"""
    proj = os.path.join(CM, "proj")
    build.write_if_changed(os.path.join(proj, "Cargo.toml"), _proj_toml())
    build.write_if_changed(os.path.join(proj, "src", "lib.rs"), "pub use arbitrary_int::u3;\npub use bitbybit::bitfield;\n")
    lock = os.path.join(proj, "Cargo.lock")
    if not os.path.exists(lock):
        shutil.copy(os.path.join(build.SNAP, "Cargo.lock"), lock)
    target = os.path.join(build.TARGET, "cm")
    env = dict(build.ENV, CARGO_TARGET_DIR=target)
    p = subprocess.run(["cargo", "build", "--offline", "--profile", macro_profile, "--message-format=json"], cwd=proj, env=env,
                       stdout=subprocess.PIPE, stderr=subprocess.PIPE, timeout=1800)
    if p.returncode != 0:
        raise Inconclusive("building the macro crate failed (%s): %s" % (macro_profile, p.stderr.decode(errors="replace")[-1500:]))
    art = {}
    for line in p.stdout.decode().splitlines():
        if not line.startswith("{"):
            continue
        m = json.loads(line)
        if m.get("reason") != "compiler-artifact":
            continue
        name = m["target"]["name"]
        for f in m["filenames"]:
            if name == "bitbybit" and f.endswith(".so"):
                art["bitbybit"] = f
            if name in ("arbitrary-int", "arbitrary_int") and f.endswith(".rlib"):
                art["arbitrary_int"] = f
    if "bitbybit" not in art or "arbitrary_int" not in art:
        raise Inconclusive("could not locate macro artifacts: %s" % art)
    art["deps"] = os.path.dirname(art["arbitrary_int"])
    return art


def rustc_batch(path, art, out_dir, extra_env=None, crate_type="lib", extra_args=()):
    """compiles one file metadata-only; returns list of error diagnostics (rustc JSON)"""
    cmd = ["rustc", "--edition", "2021", "--crate-type", crate_type, "--emit=metadata", "--error-format=json",
           "--crate-name", os.path.basename(path)[:-3], "-L", "dependency=" + art["deps"],
           "--extern", "bitbybit=" + art["bitbybit"], "--extern", "arbitrary_int=" + art["arbitrary_int"],
           "--out-dir", out_dir, "-A", "warnings"] + list(extra_args) + [path]
    env = dict(build.ENV)
    if extra_env:
        env.update(extra_env)
    try:
        p = subprocess.run(cmd, env=env, stdout=subprocess.PIPE, stderr=subprocess.PIPE, timeout=900)
    except subprocess.TimeoutExpired:
        raise Inconclusive("rustc watchdog fired on %s" % path)
    diags = []
    for line in p.stderr.decode(errors="replace").splitlines():
        if not line.startswith("{"):
            continue
        try:
            m = json.loads(line)
        except ValueError:
            continue
        if m.get("level", "").startswith("error") and not m.get("message", "").startswith("aborting due to"):
            diags.append(m)
    if p.returncode != 0 and not diags:
        raise Inconclusive("rustc failed on %s without diagnostics: %s" % (path, p.stderr.decode(errors="replace")[-800:]))
    return diags


def diag_lines(message, fname):
    """source lines (in the batch file) a diagnostic points at, primary span first, following macro expansion chains outwards"""
    def lines_of(span):
        out = []
        while span is not None:
            if os.path.basename(span.get("file_name", "")) == fname:
                out.append(span["line_start"])
            exp = span.get("expansion")
            span = exp.get("span") if exp else None
        return out
    prim, other = [], []
    for sp in message.get("spans", []):
        (prim if sp.get("is_primary") else other).extend(lines_of(sp))
    for ch in message.get("children", []):
        for sp in ch.get("spans", []):
            other.extend(lines_of(sp))
    return prim + other


class Unit:
    """one generated program fragment: a module with named line ranges (parts)"""

    def __init__(self, uid, lines, parts, meta=None):
        self.uid = uid
        self.lines = lines
        self.parts = parts      # list of (name, first, last) relative (1-based) to lines
        self.meta = meta or {}


def write_batch(path, units, header):
    L = list(header)
    index = []
    for u in units:
        off = len(L)
        index.append((u, [(n, a + off, b + off) for n, a, b in u.parts], off + 1, off + len(u.lines)))
        L += u.lines
        L.append("")
    build.write_if_changed(path, "\n".join(L) + "\n")
    return index


def locate(index, line):
    for u, parts, first, last in index:
        if first <= line <= last:
            for n, a, b in parts:
                if a <= line <= b:
                    return u, n
            return u, "?"
    return None


VRT_STUB = [
    "/// stand-in for the harness library in directly compiled batches",
    "pub mod vrt {",
    "    /// two's-complement interpretation of the low n bits",
    "    pub const fn to_signed(pattern: u128, n: u32) -> i128 {",
    "        if n >= 128 { return pattern as i128; }",
    "        let p = pattern & ((1u128 << n) - 1);",
    "        if (p >> (n - 1)) & 1 == 1 { p as i128 - (1i128 << n) } else { p as i128 }",
    "    }",
    "}",
    "",
]
HEADER = ["#![allow(dead_code, non_camel_case_types, deprecated, unused_imports, unused_variables, unreachable_patterns)]", ""] + VRT_STUB


def outcomes(units, art, tag, header=HEADER, batch_size=40, iterate=True, extra_env=None, jobs=16):
    """Compiles all units (batched, in parallel). Returns dict uid -> list of (part, code, message) for every
    unit that had at least one error located inside it; units not in the dict compiled cleanly.
    With `iterate`, clean-looking units are recompiled without the failing ones until no new error appears,
    so that an early error of one unit cannot mask a late-phase error of another."""
    d = os.path.join(CM, tag)
    shutil.rmtree(d, ignore_errors=True)
    os.makedirs(d, exist_ok=True)
    errors = {}
    remaining = list(units)
    rounds = 0
    total_compiles = 0
    while remaining:
        rounds += 1
        batches = [remaining[k:k + batch_size] for k in range(0, len(remaining), batch_size)]
        jobs_ = []
        for bi, b in enumerate(batches):
            fname = "b%d_%04d.rs" % (rounds, bi)
            path = os.path.join(d, fname)
            index = write_batch(path, b, header)
            jobs_.append((path, fname, index))
        total_compiles += len(jobs_)
        new_failed = set()
        with concurrent.futures.ThreadPoolExecutor(max_workers=jobs) as ex:
            futs = {ex.submit(rustc_batch, path, art, d, extra_env): (path, fname, index) for path, fname, index in jobs_}
            for fut in concurrent.futures.as_completed(futs):
                path, fname, index = futs[fut]
                diags = fut.result()
                unlocated = []
                located = 0
                for m in diags:
                    hit = None
                    for line in diag_lines(m, fname):
                        hit = locate(index, line)
                        if hit:
                            break
                    code = (m.get("code") or {}).get("code")
                    if hit is None:
                        unlocated.append(m)
                        continue
                    located += 1
                    u, part = hit
                    errors.setdefault(u.uid, []).append((part, code, m.get("message", "")[:400]))
                    new_failed.add(u.uid)
                if unlocated and not located:
                    raise Inconclusive("rustc reported errors that cannot be attributed to a generated case in %s: %s" % (path, unlocated[0].get("rendered", unlocated[0].get("message"))[:800]))
        if not iterate or not new_failed:
            break
        remaining = [u for u in remaining if u.uid not in errors]
        if rounds > 12:
            raise Inconclusive("compile-outcome iteration did not converge")
    return errors, dict(rounds=rounds, rustc_invocations=total_compiles)
