"""F-reject: rule-invalid twins. Each is produced from a valid declaration by one minimal invalidating edit.
Every record carries the positive twin, the rule it breaks and a stable shape name (used as the signature of
findings)."""
import copy
import random

from . import catalog, rules
from .catalog import (NATIVE, arr, bitfield_case, bool_field, enum_field, nested_def, nested_field, sint_field, std_enum, uint_field)


def _case(cid, base, fields, helpers=(), **kw):
    return bitfield_case(cid, "reject", base, fields, helpers=helpers, name="T", **kw)


def _retype(f, tywidth, signed=False):
    f = dict(f)
    f["tywidth"] = tywidth
    f["ty"] = ("i%d" if signed else "u%d") % tywidth
    return f


def base_class(n):
    return "native%d" % n if n in NATIVE else "arb(storage %d)" % catalog.storage_of(n)


def twins(tier, seed):
    """returns list of dict(pos=case, neg=case, rule=..., shape=..., kind=...)"""
    out = []
    rng = random.Random(seed * 1299709 + 29)
    n = 0

    def add(pos, neg, rule, shape, kind):
        nonlocal n
        pos = copy.deepcopy(pos)
        neg = copy.deepcopy(neg)
        pos["id"] = "rp_%04d" % n
        neg["id"] = "rn_%04d" % n
        n += 1
        out.append(dict(pos=pos, neg=neg, rule=rule, shape=shape, kind=kind))

    bases = [8, 16, 32, 64, 128, 7, 9, 24, 33, 65, 100, 127]
    if tier == "thorough":
        bases = list(NATIVE) + [b for b in range(1, 128) if b not in NATIVE and (b <= 33 or b % 8 in (0, 1, 7) or b in (100,))]
    for N in bases:
        S = catalog.storage_of(N)
        bc = base_class(N)
        # --- bits beyond the declared base width, scalars ---
        beyond = sorted({N, N + 1, S - 1, S, S + 8} - set(range(0, N)))
        for b in beyond:
            if b < N or b > 200:
                continue
            where = "inside the storage integer" if b < S else "beyond the storage integer"
            add(_case("x", N, [bool_field("x", N - 1)]), _case("x", N, [bool_field("x", b)]), "beyond-base-width",
                "scalar bool at bit >= base width, %s, %s" % (where, "native base" if N in NATIVE else "arbitrary-int base"), "bool")
            add(_case("x", N, [uint_field("x", [(N - 1, N - 1)])]), _case("x", N, [uint_field("x", [(b, b)])]), "beyond-base-width",
                "scalar u1 at bit >= base width, %s, %s" % (where, "native base" if N in NATIVE else "arbitrary-int base"), "uint")
        for w in (2, 3, 8):
            if w > N:
                continue
            # straddling the top bit: lo = N-w+1 .. hi = N
            for shift in sorted({1, w - 1, w}):
                lo = N - w + shift
                hi = lo + w - 1
                where = "inside the storage integer" if hi < S else "beyond the storage integer"
                strad = "straddling bit N-1" if lo < N else "entirely above bit N-1"
                add(_case("x", N, [uint_field("x", [(N - w, N - 1)])]), _case("x", N, [uint_field("x", [(lo, hi)])]), "beyond-base-width",
                    "scalar range %s, %s, %s" % (strad, where, "native base" if N in NATIVE else "arbitrary-int base"), "uint")
            if w == 8:
                add(_case("x", N, [sint_field("x", [(N - 8, N - 1)])]), _case("x", N, [sint_field("x", [(N - 7, N)])]), "beyond-base-width",
                    "scalar signed range straddling bit N-1, %s" % ("native base" if N in NATIVE else "arbitrary-int base"), "sint")
        if N >= 4:
            where = "inside the storage integer" if N < S else "beyond the storage integer"
            add(_case("x", N, [uint_field("x", [(0, 1), (N - 1, N - 1)])]), _case("x", N, [uint_field("x", [(0, 1), (N, N)])]), "beyond-base-width",
                "scalar range list with a range above bit N-1, %s, %s" % (where, "native base" if N in NATIVE else "arbitrary-int base"), "list")
            add(_case("x", N, [uint_field("x", [(N - 1, N - 1), (0, 1)])]), _case("x", N, [uint_field("x", [(N + 1, N + 1), (0, 1)])]), "beyond-base-width",
                "scalar range list with a range above bit N-1, %s, %s" % ("inside the storage integer" if N + 1 < S else "beyond the storage integer", "native base" if N in NATIVE else "arbitrary-int base"), "list")
            e = std_enum("En", 2, False)
            add(_case("x", N, [enum_field("x", [(N - 2, N - 1)], e)], helpers=[e]), _case("x", N, [enum_field("x", [(N - 1, N)], e)], helpers=[e]), "beyond-base-width",
                "scalar enum range straddling bit N-1, %s" % ("native base" if N in NATIVE else "arbitrary-int base"), "optenum")
            inner = nested_def("In", 2)
            add(_case("x", N, [nested_field("x", [(N - 2, N - 1)], inner)], helpers=[inner]), _case("x", N, [nested_field("x", [(N - 1, N)], inner)], helpers=[inner]), "beyond-base-width",
                "scalar nested-bitfield range straddling bit N-1, %s" % ("native base" if N in NATIVE else "arbitrary-int base"), "nested")
        if N >= 16:
            # a range list that names bits twice: the range with the lower / equal start is the one that leaves the base
            for (pa, na, shape_) in (([(N - 8, N - 1), (N - 2, N - 1)], [(N - 8, N + 7), (N - 2, N - 1)], "overlapping list whose first (lower-start) range passes bit N-1"),
                                     ([(N - 2, N - 1), (N - 8, N - 1)], [(N - 2, N - 1), (N - 8, N + 7)], "overlapping list whose last (lower-start) range passes bit N-1"),
                                     ([(N - 4, N - 1), (N - 4, N - 3)], [(N - 4, N + 3), (N - 4, N - 3)], "overlapping list, equal starts, the longer range passes bit N-1")):
                add(_case("x", N, [uint_field("x", pa)]), _case("x", N, [uint_field("x", na)]), "beyond-base-width", "%s, %s" % (shape_, "native base" if N in NATIVE else "arbitrary-int base"), "list")
        # --- a field as wide as the *storage* integer of an arbitrary-int base, starting at bit 0 ---
        if N not in NATIVE and S <= 128:
            add(_case("x", N, [uint_field("x", [(0, N - 1)])]), _case("x", N, [uint_field("x", [(0, S - 1)])]), "beyond-base-width",
                "scalar field covering the whole storage integer of an arbitrary-int base", "uint")
            if S in NATIVE and S <= 128:
                add(_case("x", N, [uint_field("x", [(0, N - 1)])]), _case("x", N, [sint_field("x", [(0, S - 1)])]), "beyond-base-width",
                    "signed field covering the whole storage integer of an arbitrary-int base", "sint")
        # one-piece list with a stride smaller than the element
        if N >= 16:
            posf = dict(uint_field("x", [(0, 7)], array=arr(2, 8)), attr_text="#[bits([0..=7], rw, stride = 8)]")
            negf = dict(uint_field("x", [(0, 7)], array=arr(2, 4)), attr_text="#[bits([0..=7], rw, stride = 4)]")
            add(_case("x", N, [posf]), _case("x", N, [negf]), "stride<width", "one-piece list array with a stride below the element width, %s" % bc, "list-array")
        # --- the same for fields with other access specifiers: the position rules do not depend on which accessors are generated ---
        for acc in ("", "r", "w"):
            aname = acc or "none"
            for b in sorted({N, S + 8}):
                if b > 200:
                    continue
                add(_case("x", N, [bool_field("x", N - 1, access=acc)]), _case("x", N, [bool_field("x", b, access=acc)]), "beyond-base-width",
                    "scalar bool at bit >= base width, access '%s', %s" % (aname, "native base" if N in NATIVE else "arbitrary-int base"), "bool")
            if N >= 8:
                add(_case("x", N, [uint_field("x", [(N - 8, N - 1)], access=acc)]), _case("x", N, [uint_field("x", [(N, N + 7)], access=acc)]), "beyond-base-width",
                    "scalar u8 entirely above bit N-1, access '%s', %s" % (aname, "native base" if N in NATIVE else "arbitrary-int base"), "uint")
                add(_case("x", N, [uint_field("x", [(N - 4, N - 3)], array=arr(2, 2), access=acc)]), _case("x", N, [uint_field("x", [(N - 2, N - 1)], array=arr(2, 2), access=acc)]), "beyond-base-width",
                    "u2 array whose last element passes bit N-1, access '%s', %s" % (aname, "native base" if N in NATIVE else "arbitrary-int base"), "array")
        # --- arrays whose last element passes bit N-1 ---
        for (w, K) in ((1, 2), (2, 2), (2, 3), (4, 2), (8, 2)):
            if K * w > N:
                continue
            for stride in sorted({w, w + 1}):
                extent = (K - 1) * stride + w
                if extent > N:
                    continue
                lo_ok = N - extent
                lo_bad = lo_ok + 1
                top_bad = lo_bad + extent - 1
                where = "inside the storage integer" if top_bad < S else "beyond the storage integer"
                mk = (lambda lo: bool_field("x", lo, array=arr(K, stride if stride != w else None, w))) if w == 1 else (lambda lo: uint_field("x", [(lo, lo + w - 1)], array=arr(K, stride if stride != w else None, w)))
                add(_case("x", N, [mk(lo_ok)]), _case("x", N, [mk(lo_bad)]), "beyond-base-width",
                    "contiguous array whose last element passes bit N-1, %s, %s" % (where, "native base" if N in NATIVE else "arbitrary-int base"), "array")
        # arrays that lie entirely above the base width
        for first in sorted({N, N + 8, S}):
            if first > 190 or N < 2:
                continue
            where = "inside the storage integer" if first + 1 < S else "beyond the storage integer"
            add(_case("x", N, [bool_field("x", N - 2, array=arr(2, None, 1))]), _case("x", N, [bool_field("x", first, array=arr(2, None, 1))]), "beyond-base-width",
                "bool array lying entirely above bit N-1, %s, %s" % (where, "native base" if N in NATIVE else "arbitrary-int base"), "array")
        if N >= 8:
            add(_case("x", N, [uint_field("x", [(N - 4, N - 3)], array=arr(2, 2))]), _case("x", N, [uint_field("x", [(N + 4, N + 5)], array=arr(2, 2))]), "beyond-base-width",
                "u2 array lying entirely above bit N-1, %s" % ("native base" if N in NATIVE else "arbitrary-int base"), "array")
        if N >= 8:
            # list array: elements [(0,0),(2,2)] stride 1; K chosen so that the last element ends at N-1 / N
            def la(lo, K):
                return uint_field("x", [(lo, lo), (lo + 2, lo + 2)], array=arr(K, 4))
            K = 2
            ext = (K - 1) * 4 + 3
            where = "inside the storage integer" if N < S else "beyond the storage integer"
            add(_case("x", N, [la(N - ext, K)]), _case("x", N, [la(N - ext + 1, K)]), "beyond-base-width",
                "list array whose last element passes bit N-1, %s, %s" % (where, "native base" if N in NATIVE else "arbitrary-int base"), "list-array")
        if N >= 16:
            # list arrays of several shapes (gapped, descending, single bits) x strides (element width, element span, beyond): one element more than
            # fits, and the whole array moved up by one bit
            for shp, rs in (("two separated pairs", [(0, 1), (6, 7)]), ("every other bit", [(0, 0), (2, 2), (4, 4), (6, 6)]), ("descending nibbles", [(4, 7), (0, 3)]), ("two separated bits", [(0, 0), (3, 3)])):
                w = sum(hi - lo + 1 for lo, hi in rs)
                span = max(hi for lo, hi in rs) + 1
                for stride in sorted({w, span, span + 1, 2 * span}):
                    kmax = (N - span) // stride + 1
                    if kmax < 2:
                        continue
                    sname = "stride = element width" if stride == w else ("stride = element span" if stride == span else "stride %d" % stride)
                    mkl = lambda lo, K: uint_field("x", [(a + lo, b + lo) for a, b in rs], array=arr(K, stride))
                    where = "inside the storage integer" if (kmax * stride + span - 1) < S else "beyond the storage integer"
                    add(_case("x", N, [mkl(0, kmax)]), _case("x", N, [mkl(0, kmax + 1)]), "beyond-base-width",
                        "list array (%s, %s) with one element more than fits, %s, %s" % (shp, sname, where, "native base" if N in NATIVE else "arbitrary-int base"), "list-array")
                    ext = (kmax - 1) * stride + span
                    where = "inside the storage integer" if N < S else "beyond the storage integer"
                    add(_case("x", N, [mkl(N - ext, kmax)]), _case("x", N, [mkl(N - ext + 1, kmax)]), "beyond-base-width",
                        "list array (%s, %s) moved one bit past bit N-1, %s, %s" % (shp, sname, where, "native base" if N in NATIVE else "arbitrary-int base"), "list-array")
        # --- type width vs selected bits ---
        for w in (1, 2, 3, 7, 8, 9, 16, 31, 32, 33, 64):
            if w > N:
                continue
            lo = (N - w) // 2
            pos = uint_field("x", [(lo, lo + w - 1)])
            for tw in (w + 1, w - 1):
                if tw < 1 or tw > 128:
                    continue
                add(_case("x", N, [pos]), _case("x", N, [_retype(pos, tw)]), "type-width-mismatch", "unsigned field type %s than the range, %s" % ("wider" if tw > w else "narrower", bc), "uint")
            if w in NATIVE:
                sp = sint_field("x", [(lo, lo + w - 1)])
                if w - 1 >= 1 and lo + w - 2 >= lo:
                    neg = dict(sp, ranges=[(lo, lo + w - 2)], width=w - 1, tywidth=w)
                    add(_case("x", N, [sp]), _case("x", N, [neg]), "type-width-mismatch", "signed field over one bit too few, %s" % bc, "sint")
                if lo + w < N:
                    neg = dict(sp, ranges=[(lo, lo + w)], width=w + 1, tywidth=w)
                    add(_case("x", N, [sp]), _case("x", N, [neg]), "type-width-mismatch", "signed field over one bit too many, %s" % bc, "sint")
        if N >= 2:
            pos = bool_field("x", 0)
            neg = dict(pos, ranges=[(0, 1)], form="bits", width=2, tywidth=1)
            add(_case("x", N, [pos]), _case("x", N, [neg]), "bool-not-one-bit", "bool over two bits, %s" % bc, "bool")
            e = std_enum("Ex", 2, True)
            if N >= 3:
                posf = enum_field("x", [(0, 1)], e)
                neg = dict(posf, ranges=[(0, 2)], width=3, tywidth=2)
                add(_case("x", N, [posf], helpers=[e]), _case("x", N, [neg], helpers=[e]), "type-width-mismatch", "enum field over one bit too many, %s" % bc, "enum")
            posf = enum_field("x", [(0, 1)], e)
            neg = dict(posf, ranges=[(0, 0)], form="bit", width=1, tywidth=2)
            add(_case("x", N, [posf], helpers=[e]), _case("x", N, [neg], helpers=[e]), "type-width-mismatch", "enum field over one bit too few, %s" % bc, "enum")
            # the same mismatches on fields without a getter (nothing reads the value back through the custom type)
            for acc in ("w", ""):
                if N >= 3:
                    posf = enum_field("x", [(0, 1)], e, access=acc)
                    neg = dict(posf, ranges=[(0, 2)], width=3, tywidth=2)
                    add(_case("x", N, [posf], helpers=[e]), _case("x", N, [neg], helpers=[e]), "type-width-mismatch", "enum field over one bit too many, access '%s', %s" % (acc or "none", bc), "enum")
                posf = enum_field("x", [(0, 1)], e, access=acc)
                neg = dict(posf, ranges=[(0, 0)], form="bit", width=1, tywidth=2)
                add(_case("x", N, [posf], helpers=[e]), _case("x", N, [neg], helpers=[e]), "type-width-mismatch", "enum field over one bit too few, access '%s', %s" % (acc or "none", bc), "enum")
            if N >= 8:
                inner = nested_def("In", 3)
                en16 = std_enum("En", 8, False)
                for acc in ("w", "rw"):
                    posf = nested_field("x", [(2, 4)], inner, access=acc)
                    neg = dict(posf, ranges=[(2, 3)], width=2, tywidth=3)
                    add(_case("x", N, [posf], helpers=[inner]), _case("x", N, [neg], helpers=[inner]), "type-width-mismatch", "nested bitfield over one bit too few, access '%s', %s" % (acc, bc), "nested")
                    posf = nested_field("x", [(0, 2)], inner, access=acc, array=arr(2, 4))
                    neg = dict(posf, ranges=[(0, 1)], width=2, tywidth=3)
                    add(_case("x", N, [posf], helpers=[inner]), _case("x", N, [neg], helpers=[inner]), "type-width-mismatch", "nested bitfield array element one bit too narrow, access '%s', %s" % (acc, bc), "nested")
                    posf = enum_field("x", [(0, 7)], en16, access=acc)
                    neg = dict(posf, ranges=[(0, 3)], width=4, tywidth=8)
                    add(_case("x", N, [posf], helpers=[en16]), _case("x", N, [neg], helpers=[en16]), "type-width-mismatch", "8-bit enum in a 4-bit field, access '%s', %s" % (acc, bc), "optenum")
        # --- array count / stride rules ---
        if N >= 8:
            pos = uint_field("x", [(0, 3)], array=arr(2, None, 4))
            for K in (0, 1):
                neg = dict(pos, array=arr(K, None, 4))
                add(_case("x", N, [pos]), _case("x", N, [neg]), "array-count<2", "array with %d element(s), %s" % (K, bc), "array")
            posl = uint_field("x", [(0, 1), (4, 5)], array=arr(2, 2))
            for K in (0, 1):
                add(_case("x", N, [posl]), _case("x", N, [dict(posl, array=arr(K, 2))]), "array-count<2", "list array with %d element(s), %s" % (K, bc), "list-array")
            posb = bool_field("x", 0, array=arr(2, None, 1))
            add(_case("x", N, [posb]), _case("x", N, [dict(posb, array=arr(1, None, 1))]), "array-count<2", "bool array with 1 element, %s" % bc, "array")
            pos = uint_field("x", [(0, 3)], array=arr(2, 4))
            neg = dict(pos, array=arr(2, 3))
            add(_case("x", N, [pos]), _case("x", N, [neg]), "stride<width", "stride one below the element width, %s" % bc, "array")
            pos = bool_field("x", 0, array=arr(4, 1))
            add(_case("x", N, [pos]), _case("x", N, [dict(pos, array=arr(4, 0))]), "stride<width", "bool array with stride 0, %s" % bc, "array")
            pos = uint_field("x", [(0, 1)], array=arr(3, 2))
            add(_case("x", N, [pos]), _case("x", N, [dict(pos, array=arr(3, 0))]), "stride<width", "u2 array with stride 0, %s" % bc, "array")
            pos = bool_field("x", 0, array=arr(2, 1))
            pos2 = uint_field("x", [(0, 0), (2, 2)], array=arr(2, 4))
            neg = dict(pos2, array=dict(pos2["array"], explicit=False))
            add(_case("x", N, [pos2]), _case("x", N, [neg]), "list-array-without-stride", "list-element array without stride, %s" % bc, "list-array")
            pos = uint_field("x", [(0, 3)])
            neg = dict(pos, stride_on_scalar=4)
            add(_case("x", N, [pos]), _case("x", N, [neg]), "stride-on-scalar", "stride on a non-array field, %s" % bc, "uint")
        # --- the same rules with the arguments written in another order (the attribute parser is order-agnostic) ---
        if N >= 16:
            for order, oname in ((("stride", "range", "access"), "stride, range, access"), (("access", "stride", "range"), "access, stride, range"), (("range", "stride", "access"), "range, stride, access")):
                def attr(rng, acc, stride):
                    parts = dict(range=rng, access=acc, stride="stride = %d" % stride)
                    return "#[bits(%s)]" % ", ".join(parts[k] for k in order)
                pos = dict(uint_field("x", [(0, 3)], array=arr(3, 4)), attr_text=attr("0..=3", "rw", 4))
                neg = dict(uint_field("x", [(0, 3)], array=arr(3, 2)), attr_text=attr("0..=3", "rw", 2))
                add(_case("x", N, [pos]), _case("x", N, [neg]), "stride<width", "stride below the element width, arguments ordered %s, %s" % (oname, bc), "array")
                neg = dict(uint_field("x", [(N - 7, N - 4)], array=arr(3, 4)), attr_text=attr("%d..=%d" % (N - 7, N - 4), "rw", 4))
                pos = dict(uint_field("x", [(N - 12, N - 9)], array=arr(3, 4)), attr_text=attr("%d..=%d" % (N - 12, N - 9), "rw", 4))
                add(_case("x", N, [pos]), _case("x", N, [neg]), "beyond-base-width", "array passing bit N-1, arguments ordered %s, %s" % (oname, bc), "array")
            pos = dict(uint_field("x", [(0, 3)]), attr_text="#[bits(rw, 0..=3)]")
            neg = dict(_retype(uint_field("x", [(0, 3)]), 5), attr_text="#[bits(rw, 0..=3)]")
            add(_case("x", N, [pos]), _case("x", N, [neg]), "type-width-mismatch", "type wider than the range, access written before the range, %s" % bc, "uint")
        # --- lo > hi ---
        if N >= 8:
            pos = uint_field("x", [(3, 5)])
            neg = dict(pos, ranges=[(5, 3)], attr_text="#[bits(5..=3, rw)]")
            add(_case("x", N, [pos]), _case("x", N, [neg]), "lo>hi", "range with lo > hi, %s" % bc, "uint")
            pos = uint_field("x", [(0, 1), (6, 7)])
            neg = dict(pos, ranges=[(0, 1), (7, 6)], attr_text="#[bits([0..=1, 7..=6], rw)]")
            add(_case("x", N, [pos]), _case("x", N, [neg]), "lo>hi", "range with lo > hi inside a list, %s" % bc, "list")
            # hi = lo - 1: an "empty" range; the type is as wide as the remaining ranges
            pos = uint_field("x", [(0, 3), (5, 5)])
            neg = dict(uint_field("x", [(0, 3)]), ranges=[(0, 3), (5, 4)], form="list", attr_text="#[bits([0..=3, 5..=4], rw)]")
            add(_case("x", N, [pos]), _case("x", N, [neg]), "lo>hi", "empty reversed range (hi = lo - 1) inside a list, %s" % bc, "list")
            neg = dict(uint_field("x", [(0, 3)]), ranges=[(7, 6), (0, 3)], form="list", attr_text="#[bits([7..=6, 0..=3], rw)]")
            add(_case("x", N, [pos]), _case("x", N, [neg]), "lo>hi", "empty reversed range (hi = lo - 1) first in a list, %s" % bc, "list")
            if N >= 16:
                pos = uint_field("x", [(0, 1), (3, 3)], array=arr(2, 8))
                neg = dict(uint_field("x", [(0, 1)], array=arr(2, 8)), ranges=[(0, 1), (4, 3)], form="list", attr_text="#[bits([0..=1, 4..=3], rw, stride = 8)]")
                add(_case("x", N, [pos]), _case("x", N, [neg]), "lo>hi", "empty reversed range inside a list array, %s" % bc, "list-array")
    # --- the same field text under a base of the same storage class that is too narrow for it ---
    for S_, narrow in ((8, 7), (16, 9), (32, 24), (32, 17), (64, 33), (64, 63), (128, 65), (128, 127)):
        fields = [lambda: uint_field("tag", [(S_ - 8, S_ - 1)]) if S_ >= 16 else uint_field("tag", [(S_ - 1, S_ - 1)]),
                  lambda: bool_field("flag", S_ - 1),
                  lambda: uint_field("arr", [(0, 0)], array=arr(S_, None, 1)),
                  lambda: uint_field("li", [(S_ - 1, S_ - 1), (0, 1)])]
        for mk in fields:
            add(_case("x", S_, [mk()]), _case("x", narrow, [mk()]), "beyond-base-width", "field text valid for u%d reused under u%d (same storage integer)" % (S_, narrow), "same-tokens")
    # --- numbers near usize::MAX: the macro's own bounds arithmetic must not wrap (it does when the macro is built without overflow checks) ---
    U = (1 << 64) - 1
    for N in (8, 32, 24, 128):
        bc = base_class(N)
        pos = bool_field("x", 0, array=arr(3, 1))
        neg = dict(pos, array=arr(3, 1 << 63), attr_text="#[bit(0, rw, stride = %d)]" % (1 << 63))
        add(_case("x", N, [pos]), _case("x", N, [neg]), "beyond-base-width", "bool array with stride 2^63 (index * stride wraps), %s" % bc, "huge")
        pos = bool_field("x", 1, array=arr(2, None, 1))
        neg = dict(pos, ranges=[(U, U)], attr_text="#[bit(%d, rw)]" % U)
        add(_case("x", N, [pos]), _case("x", N, [neg]), "beyond-base-width", "bool array at bit usize::MAX, %s" % bc, "huge")
        pos = bool_field("x", 1)
        neg = dict(pos, ranges=[(U, U)], attr_text="#[bit(%d, rw)]" % U)
        add(_case("x", N, [pos]), _case("x", N, [neg]), "beyond-base-width", "bool at bit usize::MAX, %s" % bc, "huge")
        pos = uint_field("x", [(5, 6), (0, 5)])
        neg = dict(pos, ranges=[(5, U), (0, 12)], attr_text="#[bits([5..=%d, 0..=12], rw)]" % U, ty="u8", tywidth=8)
        pos = dict(pos)
        add(_case("x", N, [pos]), _case("x", N, [neg]), "beyond-base-width", "range list with an upper limit of usize::MAX, %s" % bc, "huge")
        pos = uint_field("x", [(0, 3)], array=arr(2, None, 4))
        neg = dict(pos, array=arr((1 << 62) + 1, None, 4))
        add(_case("x", N, [pos]), _case("x", N, [neg]), "beyond-base-width", "array with 2^62+1 elements (count * stride wraps), %s" % bc, "huge")
        pos = uint_field("x", [(0, 3)])
        neg = dict(pos, ranges=[(U - 3, U)], attr_text="#[bits(%d..=%d, rw)]" % (U - 3, U))
        add(_case("x", N, [pos]), _case("x", N, [neg]), "beyond-base-width", "range ending at usize::MAX, %s" % bc, "huge")
    # --- unsupported bases ---
    pos = _case("x", 32, [bool_field("x", 0)])
    for bt in ("u0", "u129", "u200", "i32", "usize", "u256", "bool"):
        neg = dict(pos, base_text=bt)
        add(pos, neg, "unsupported-base", "unsupported base type %s" % bt, "base")
    for t in out:
        va, _ = rules.bitfield_verdict(t["pos"])
        vr, probs = rules.bitfield_verdict(t["neg"])
        assert va == rules.ACCEPT, ("positive twin not rule-valid", t["shape"], t["pos"])
        assert vr == rules.REJECT and t["rule"] in probs, ("negative twin not rule-invalid for the intended rule", t["shape"], probs)
    return out


# ------------------------------------------------------------------------------------------------
# bitenum twins (C10)
# ------------------------------------------------------------------------------------------------

def enum_twins(tier, seed):
    """list of dict(pos=enum, neg=enum, rule, shape); enums are catalog.make_enum records named E"""
    from .catalog import make_enum
    out = []

    def add(pos, neg, rule, shape):
        out.append(dict(pos=pos, neg=neg, rule=rule, shape=shape))

    widths = [1, 2, 3, 4, 5, 6, 7, 8] if tier == "quick" else list(range(1, 11))
    edges = [9, 16, 17, 32, 33, 63, 64]
    for n in widths:
        space = 1 << n
        full = list(range(space))
        for syn in ("=", ":"):
            # exhaustive = true with all values vs one missing
            add(make_enum("E", n, full, "true", syntax=syn), make_enum("E", n, full[:-1] if space > 1 else [], "true", syntax=syn),
                "claims-exhaustive-but-is-not", "exhaustive = true with 2^N-1 variants (syntax %s)" % syn) if space > 1 and len(full[:-1]) > 0 else None
            if space > 2:
                add(make_enum("E", n, full, "true", syntax=syn), make_enum("E", n, full[1:], "true", syntax=syn),
                    "claims-exhaustive-but-is-not", "exhaustive = true with value 0 missing (syntax %s)" % syn)
            if space > 1:
                # the same claims with `exhaustive` written before the storage type
                add(dict(make_enum("E", n, full, "true", syntax=syn), args_rev=True), dict(make_enum("E", n, full[:-1], "true", syntax=syn), args_rev=True),
                    "claims-exhaustive-but-is-not", "exhaustive = true with 2^N-1 variants, exhaustive written first (syntax %s)" % syn)
                add(dict(make_enum("E", n, full[:-1], "false", syntax=syn), args_rev=True), dict(make_enum("E", n, full, "false", syntax=syn), args_rev=True),
                    "is-exhaustive-but-not-declared", "exhaustive = false with all 2^N variants, exhaustive written first (syntax %s)" % syn)
            # exhaustive = false / omitted with all values present
            add(make_enum("E", n, full[:-1] or [0], "false", syntax=syn) if space > 1 else make_enum("E", n, [0], "false", syntax=syn), make_enum("E", n, full, "false", syntax=syn),
                "is-exhaustive-but-not-declared", "exhaustive = false with all 2^N variants (syntax %s)" % syn)
        add(make_enum("E", n, full[:-1] or [0], None), make_enum("E", n, full, None), "is-exhaustive-but-not-declared", "exhaustive omitted with all 2^N variants")
        # 2^N + 1 variants (distinct discriminants, so one is 2^N)
        add(make_enum("E", n, full, "true"), make_enum("E", n, full + [space], "true"), "too-many-variants", "2^N+1 variants, exhaustive = true")
        add(make_enum("E", n, full[:-1] or [0], "false"), make_enum("E", n, full + [space], "false"), "too-many-variants", "2^N+1 variants, exhaustive = false")
        # largest discriminant 2^N - 1 vs 2^N
        if space > 2:
            add(make_enum("E", n, [0, space - 1], "false"), make_enum("E", n, [0, space], "false"), "discriminant>=2^N", "discriminant = 2^N, exhaustive = false")
            add(make_enum("E", n, [0, space - 1], None), make_enum("E", n, [0, space + 1], None), "discriminant>=2^N", "discriminant = 2^N+1, exhaustive omitted")
        add(make_enum("E", n, [space - 1], "conditional"), make_enum("E", n, [space], "conditional"), "discriminant>=2^N", "discriminant = 2^N under conditional")
        # same count as 2^N but with one discriminant out of range (so a value is missing)
        if space > 1:
            add(make_enum("E", n, full, "true"), make_enum("E", n, full[:-1] + [space], "true"), "discriminant>=2^N", "2^N variants, one discriminant = 2^N, exhaustive = true")
        # cfg-gated variant without conditional
        if space > 2:
            add(make_enum("E", n, [0, 1], "conditional", cfg=[None, True]), make_enum("E", n, [0, 1], "false", cfg=[None, True]), "cfg-without-conditional", "cfg-gated variant under exhaustive = false")
            add(make_enum("E", n, [0, 1], "conditional", cfg=[None, False]), make_enum("E", n, [0, 1], None, cfg=[None, False]), "cfg-without-conditional", "cfg-gated variant with exhaustive omitted")
        add(make_enum("E", n, full, "conditional", cfg=[None] * (space - 1) + [True]), make_enum("E", n, full, "true", cfg=[None] * (space - 1) + [True]), "cfg-without-conditional", "cfg-gated variant under exhaustive = true")
    # position of the offending item: first / middle / last variant; attributes around #[cfg]
    for n in (2, 3, 5, 8, 12, 16, 33):
        space = 1 << n
        good = [0, 1, 2, space - 1]
        for pos_ in range(4):
            ds = list(good)
            ds[pos_] = space if pos_ != 3 else space + 1
            neg = make_enum("E", n, ds, "false")
            add(make_enum("E", n, good, "false") if space > 4 else make_enum("E", n, [0, 1, 3], "false"), neg, "discriminant>=2^N", "discriminant >= 2^N at variant position %d of 4" % pos_)
            neg = make_enum("E", n, ds, "conditional")
            add(make_enum("E", n, good, "conditional"), neg, "discriminant>=2^N", "discriminant >= 2^N at variant position %d of 4 under conditional" % pos_)
        for pos_ in range(3):
            for deco, dname in ((dict(pre_attrs=["/// documented variant"]), "doc comment before #[cfg]"), (dict(post_attrs=["/// documented variant"]), "doc comment after #[cfg]"),
                                (dict(pre_attrs=["#[allow(dead_code)]"]), "#[allow] before #[cfg]"), (dict(pre_attrs=["/// a", "/// b", "#[allow(dead_code)]"]), "three attributes before #[cfg]")):
                for cfgval in (True, False):
                    def mk(exh):
                        e = make_enum("E", n, [0, 1, 2], exh, cfg=[cfgval if k == pos_ else None for k in range(3)])
                        e["variants"][pos_] = dict(e["variants"][pos_], **deco)
                        return e
                    add(mk("conditional"), mk("false"), "cfg-without-conditional", "cfg(%s) on variant %d of 3 with %s, exhaustive = false" % ("all" if cfgval else "any", pos_, dname))
        # exhaustive = true claimed while a cfg-gated (absent) variant makes the count fit
        if n <= 3:
            full = list(range(space))
            for pos_ in (0, space // 2, space - 1):
                def mk2(exh):
                    e = make_enum("E", n, full, exh, cfg=[False if k == pos_ else None for k in range(space)])
                    e["variants"][pos_] = dict(e["variants"][pos_], pre_attrs=["/// documented variant"])
                    return e
                add(mk2("conditional"), mk2("true"), "cfg-without-conditional", "exhaustive = true with a compiled-out, documented cfg variant at position %d" % pos_)
    # exactly 2^N variants of which one is v + 64 / v + 128 / v + 256 / v + 2^32 instead of v (bitmaps and narrowed integers alias it onto v)
    for n in (1, 2, 3, 4, 6, 8):
        space = 1 << n
        full = list(range(space))
        for v in sorted({0, space - 1, space // 2}):
            for off in (64, 128, 256, 1 << 32):
                if v + off < space:
                    continue
                ds = [d if d != v else v + off for d in full]
                add(make_enum("E", n, full, "true"), make_enum("E", n, ds, "true"), "discriminant>=2^N", "2^N variants, value %s replaced by itself + %d, exhaustive = true" % ("0" if v == 0 else ("2^N-1" if v == space - 1 else "2^(N-1)"), off))
                if n <= 3:
                    add(make_enum("E", n, [d for d in full if d != (v + 1) % space] or [0], "false"), make_enum("E", n, [d for d in ds if d != (v + 1) % space] or [off], "false"), "discriminant>=2^N",
                        "2^N-1 variants, one of them itself + %d, exhaustive = false" % off) if space > 1 else None
    # cfg-gated variant without `conditional` in a list that is not ascending (descending, and a peak first)
    for n in (2, 3, 8, 12):
        space = 1 << n
        for order, oname in (([3, 2, 1, 0], "descending"), ([space - 1, 0, 2, 1], "largest first"), ([1, 3, 0, 2], "mixed")):
            for pos_ in range(4):
                for exh in ("false", None, "true"):
                    if exh == "true" and space != 4:
                        continue
                    cfgs = [True if k == pos_ else None for k in range(4)]
                    negE = make_enum("E", n, order, exh, cfg=cfgs)
                    posE = make_enum("E", n, order, "conditional", cfg=cfgs)
                    add(posE, negE, "cfg-without-conditional", "cfg on variant %d of 4 in %s order, exhaustive %s" % (pos_, oname, exh or "omitted"))
    # too-large discriminants spelled with digit separators / radix prefixes whose leading digits alone would fit
    for n, texts in ((4, ("0b1_0000", "1_6", "0x1_0", "0o2_0")), (3, ("1_0", "0b1_000", "0x0_8")), (2, ("0x0_4", "0_4", "0b1_00")), (8, ("2_56", "0x1_00", "0b1_0000_0000")), (12, ("4_096", "0x1_000"))):
        space = 1 << n
        for text in texts:
            val = int(text.replace("_", ""), 0) if not text.startswith("0_") else int(text.replace("_", ""))
            assert val >= space, (n, text)
            posE = make_enum("E", n, [0, space - 1], "false")
            negE = make_enum("E", n, [0, val], "false")
            negE["variants"][1] = dict(negE["variants"][1], discr_text=" = %s" % text)
            add(posE, negE, "discriminant>=2^N", "discriminant %s (>= 2^N) written with digit separators, exhaustive = false" % text)
            if n <= 3:
                full = list(range(space))
                negE = make_enum("E", n, full[:-1] + [val], "true")
                negE["variants"][-1] = dict(negE["variants"][-1], discr_text=" = %s" % text)
                add(make_enum("E", n, full, "true"), negE, "discriminant>=2^N", "2^N variants, the last one %s (>= 2^N) written with digit separators, exhaustive = true" % text)
    # conditional enums listing more than 2^N variants: an out-of-range discriminant beyond index 2^N-1
    for n in (1, 2, 3):
        space = 1 << n
        full = list(range(space))
        pos = make_enum("E", n, full + [space - 1], "conditional", cfg=[None] * space + [False], names=["V%d" % k for k in range(space)] + ["Twin"])
        neg = make_enum("E", n, full + [space], "conditional")
        add(pos, neg, "discriminant>=2^N", "conditional, 2^N+1 variants, the last one = 2^N")
        neg = make_enum("E", n, full + [space - 1, space + 3], "conditional", cfg=[None] * space + [False, None], names=["V%d" % k for k in range(space)] + ["Twin", "Big"])
        add(pos, neg, "discriminant>=2^N", "conditional, 2^N+2 variants, the last one > 2^N")
        neg = make_enum("E", n, full + [space + 1], "conditional", cfg=[None] * space + [False])
        add(pos, neg, "discriminant>=2^N", "conditional, compiled-out extra variant > 2^N")
    for n in edges:
        space = 1 << n
        add(make_enum("E", n, [0, space - 1], "false"), make_enum("E", n, [0, space], "false"), "discriminant>=2^N", "discriminant = 2^N, exhaustive = false") if n < 64 else None
        add(make_enum("E", n, [1, space - 1], "false"), make_enum("E", n, [1, space - 1], "true"), "claims-exhaustive-but-is-not", "exhaustive = true with two variants")
        add(make_enum("E", n, [0, 5], "conditional", cfg=[None, True]), make_enum("E", n, [0, 5], "false", cfg=[None, True]), "cfg-without-conditional", "cfg-gated variant under exhaustive = false")
    # discriminant forms
    for n in (2, 3, 8, 16, 33):
        pos = make_enum("E", n, [0, 1, 2], "false")
        for text, shape in ((" = 1 + 1", "computed discriminant"), ("", "missing discriminant"), (" = -1", "negative discriminant"), (" = TWO", "named-constant discriminant")):
            neg = make_enum("E", n, [0, 1, 2], "false")
            neg["variants"][2] = dict(neg["variants"][2], discr=None, discr_text=text)
            if "TWO" in text:
                neg["prelude"] = "const TWO: isize = 2;"
            add(pos, neg, "non-literal-or-missing-discriminant", shape)
    # storage types
    pos = make_enum("E", 8, [0, 1], "false")
    for bt in ("u0", "u65", "u128", "i8", "usize", "bool"):
        neg = dict(make_enum("E", 8, [0, 1], "false"), bits_text=bt)
        add(pos, neg, "unsupported-storage", "storage type %s" % bt)
    neg = dict(make_enum("E", 8, [0, 1], "false"), no_storage=True)
    add(pos, neg, "unsupported-storage", "no storage type")
    out = [t for t in out if t is not None]
    for t in out:
        va, _ = rules.enum_verdict(t["pos"])
        vr, probs = rules.enum_verdict(t["neg"])
        assert va == rules.ACCEPT, ("positive enum twin not rule-valid", t["shape"], _)
        assert vr == rules.REJECT and (t["rule"] in probs), ("negative enum twin not rule-invalid as intended", t["shape"], probs)
    return out
