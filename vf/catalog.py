"""Catalog of generated declarations (cases).

A case is a plain dict from which both the Rust text and the machine-readable description that the
reference model / rule oracle read are produced.  Nothing in a case is obtained from the macro.

Families: single, array, nc, enumf, custom, mixed (incl. overlap), base.
Every family has a systematic core (seed independent) and a seeded random part.
"""
import itertools
import random

NATIVE = (8, 16, 32, 64, 128)
ARB_FIXED = (1, 2, 3, 7, 9, 12, 15, 17, 24, 31, 33, 63, 65, 100, 127)


def storage_of(n):
    for s in NATIVE:
        if n <= s:
            return s
    raise ValueError(n)


def is_native(n):
    return n in NATIVE


def all_arb_widths():
    return [n for n in range(1, 128) if n not in NATIVE]


def uint_field(name, ranges, access="rw", array=None, form=None, doc=None):
    w = sum(hi - lo + 1 for lo, hi in ranges)
    native = is_native(w)
    return dict(name=name, kind="uint", width=w, native=native, ty="u%d" % w, tyref=None, ranges=list(ranges),
                form=form or _form(ranges, w), array=array, access=access, doc=doc)


def bool_field(name, bit, access="rw", array=None, doc=None):
    return dict(name=name, kind="bool", width=1, native=False, ty="bool", tyref=None, ranges=[(bit, bit)], form="bit",
                array=array, access=access, doc=doc)


def sint_field(name, ranges, access="rw", array=None, doc=None):
    w = sum(hi - lo + 1 for lo, hi in ranges)
    assert w in NATIVE
    return dict(name=name, kind="sint", width=w, native=True, ty="i%d" % w, tyref=None, ranges=list(ranges),
                form=_form(ranges, w), array=array, access=access, doc=doc)


def enum_field(name, ranges, enum, access="rw", array=None, doc=None):
    w = sum(hi - lo + 1 for lo, hi in ranges)
    assert w == enum["bits"], (w, enum["bits"])
    full = is_exhaustive(enum)
    return dict(name=name, kind="enum" if full else "optenum", width=w, native=(w != 1 and is_native(w)),
                ty=enum["name"] if full else "Option<%s>" % enum["name"], tyref=enum["name"], ranges=list(ranges),
                form=_form(ranges, w), array=array, access=access, doc=doc)


def nested_field(name, ranges, inner, access="rw", array=None, doc=None):
    w = sum(hi - lo + 1 for lo, hi in ranges)
    assert w == inner["base"]
    return dict(name=name, kind="nested", width=w, native=(w != 1 and is_native(w)), ty=inner["name"], tyref=inner["name"],
                ranges=list(ranges), form=_form(ranges, w), array=array, access=access, doc=doc)


def _form(ranges, w):
    if len(ranges) > 1:
        return "list"
    return "bit" if w == 1 else "bits"


def arr(count, stride=None, width=None, syntax="="):
    """array spec; stride None => omitted (defaults to the element width)"""
    return dict(count=count, stride=stride if stride is not None else width, explicit=stride is not None, syntax=syntax)


def is_exhaustive(enum):
    return enum["exhaustive"] == "true"


def make_enum(name, bits, discrs, exhaustive=None, syntax="=", cfg=None, names=None, radix=None):
    """discrs: list of ints. exhaustive: 'true'|'false'|'conditional'|None (omitted)"""
    variants = []
    for k, d in enumerate(discrs):
        variants.append(dict(name=(names[k] if names else "V%d" % k), discr=d, cfg=(cfg[k] if cfg else None),
                             radix=(radix or "dec")))
    return dict(kind="enum", name=name, bits=bits, exhaustive=exhaustive, syntax=syntax, variants=variants,
                repr64=bits >= 32)


def enum_present(enum):
    """variants that exist in the compiled program (cfg(any()) ones do not)"""
    return [v for v in enum["variants"] if v["cfg"] in (None, True)]


def bitfield_case(cid, family, base, fields, default=None, debug=False, helpers=(), tags=(), seeded=False, name="T",
                  vis="pub", doc=None):
    return dict(id=cid, family=family, kind="bitfield", name=name, base=base, storage=storage_of(base), fields=fields,
                default=default, debug=debug, helpers=list(helpers), tags=list(tags), seeded=seeded, vis=vis, doc=doc)


def default_spec(value, form="lit", syntax="=", radix="hex", text=None, const_name=None):
    """text: exact literal spelling to emit (must denote `value`); const_name: name of the named constant"""
    d = dict(value=value, form=form, syntax=syntax, radix=radix)
    if text is not None:
        d["text"] = text
    if const_name is not None:
        d["const_name"] = const_name
    return d


# ------------------------------------------------------------------------------------------------
# F-single
# ------------------------------------------------------------------------------------------------

def _pack(prefix, family, base, fields, per=48, seeded=False, tags=()):
    out = []
    for k in range(0, len(fields), per):
        chunk = fields[k:k + per]
        for j, f in enumerate(chunk):
            f["name"] = "f%d" % j
        out.append(bitfield_case("%s_%03d" % (prefix, k // per), family, base, chunk, tags=tags, seeded=seeded))
    return out


def single_fields_all(base):
    fs = []
    for lo in range(base):
        for hi in range(lo, base):
            fs.append(uint_field("x", [(lo, hi)]))
    return fs


def single_fields_bool(base):
    return [bool_field("x", b) for b in range(base)]


def single_fields_signed(base):
    fs = []
    for n in NATIVE:
        for lo in range(0, base - n + 1):
            fs.append(sint_field("x", [(lo, lo + n - 1)]))
    return fs


GRID_W = (1, 2, 7, 8, 9, 15, 16, 17, 31, 32, 33, 63, 64, 65)


def single_fields_grid(base):
    seen = set()
    fs = []
    ws = set(w for w in GRID_W if w <= base) | {base, max(1, base - 1)}
    for w in sorted(ws):
        for lo in {0, 1, (base - w) // 2, base - w}:
            if lo < 0 or lo + w > base or (lo, w) in seen:
                continue
            seen.add((lo, w))
            fs.append(uint_field("x", [(lo, lo + w - 1)]))
            if w in NATIVE:
                fs.append(sint_field("x", [(lo, lo + w - 1)]))
    for b in {0, 1, base // 2, base - 1}:
        if 0 <= b < base:
            fs.append(bool_field("x", b))
    return fs


def fam_single(tier, seed):
    cases = []
    rng = random.Random(seed * 7919 + 11)
    if tier == "thorough":
        for base in range(1, 129):
            if base > 64 and base not in (65, 100, 127, 128) and base % 8 not in (0, 1, 7):
                # very wide odd bases: boundary grid only (full enumeration is done on the rest)
                cases += _pack("sg%d" % base, "single", base, single_fields_grid(base))
                continue
            cases += _pack("sa%d" % base, "single", base, single_fields_all(base))
            cases += _pack("sb%d" % base, "single", base, single_fields_bool(base))
            sf = single_fields_signed(base)
            if sf:
                cases += _pack("ss%d" % base, "single", base, sf)
    else:
        for base in NATIVE:
            cases += _pack("sa%d" % base, "single", base, single_fields_all(base))
            cases += _pack("sb%d" % base, "single", base, single_fields_bool(base))
            cases += _pack("ss%d" % base, "single", base, single_fields_signed(base))
        for base in ARB_FIXED:
            if base <= 12:
                cases += _pack("sa%d" % base, "single", base, single_fields_all(base) + single_fields_bool(base))
            else:
                cases += _pack("sg%d" % base, "single", base, single_fields_grid(base))
    # fields whose (lowest bit, width) or (lowest bit, highest bit) pairs concatenate to the same decimal string -- e.g. (1,12) and (11,2) --
    # declared in the same struct, in both orders (names or keys derived from the numbers without a separator collide)
    for base in (64, 128):
        pairs = []
        cands = [(lo, w) for lo in range(base) for w in range(1, base - lo + 1)]
        for conv in ("w", "hi"):
            by = {}
            for lo, w in cands:
                key = "%d%d" % (lo, w if conv == "w" else lo + w - 1)
                by.setdefault(key, []).append((lo, w))
            for key, lst in sorted(by.items()):
                if len(lst) > 1:
                    pairs.append(lst[:2])
        fs = []
        for k, pr in enumerate(pairs):
            for (lo, w) in (pr if k % 2 == 0 else reversed(pr)):
                fs.append(uint_field("x", [(lo, lo + w - 1)]))
        if tier == "quick":
            fs = fs[:24 * 12]
        cases += _pack("sc%d" % base, "single", base, fs, per=24)
    # seeded: random arbitrary bases + random placements on all kinds of bases
    arb = [n for n in all_arb_widths() if n not in ARB_FIXED]
    nseed = 6 if tier == "quick" else 12
    for base in rng.sample(arb, nseed):
        cases += _pack("sr%d" % base, "single", base, single_fields_grid(base), seeded=True)
    fs_by_base = {}
    for _ in range(240 if tier == "quick" else 2400):
        base = rng.choice(list(NATIVE) + all_arb_widths())
        w = rng.randint(1, base)
        lo = rng.randint(0, base - w)
        kind = rng.random()
        if w in NATIVE and kind < 0.4:
            f = sint_field("x", [(lo, lo + w - 1)])
        elif w == 1 and kind < 0.5:
            f = bool_field("x", lo)
        else:
            f = uint_field("x", [(lo, lo + w - 1)])
        f["access"] = rng.choice(["rw", "rw", "rw", "r", "w"])
        fs_by_base.setdefault(base, []).append(f)
    for base, fs in sorted(fs_by_base.items()):
        cases += _pack("sx%d" % base, "single", base, fs, seeded=True)
    return cases


# ------------------------------------------------------------------------------------------------
# helper enums
# ------------------------------------------------------------------------------------------------

def std_enum(name, bits, exhaustive, rng=None, nvar=None):
    """a well-formed enum over `bits` bits"""
    space = 1 << bits
    if exhaustive:
        assert bits <= 8
        return make_enum(name, bits, list(range(space)), "true")
    if nvar is None:
        nvar = min(space - 1, 3 if bits <= 2 else 5)
    nvar = max(1, min(nvar, space - 1))
    if rng is None:
        ds = [0, space - 1, 1, space // 2, 2][:nvar] if space > 2 else [1]
        ds = list(dict.fromkeys(ds))[:nvar]
        if len(ds) >= space:
            ds = ds[:space - 1]
    else:
        ds = set()
        ds.add(rng.choice([0, space - 1]))
        while len(ds) < nvar:
            ds.add(rng.randrange(space))
        ds = list(ds)
        rng.shuffle(ds)
    return make_enum(name, bits, ds, "false")


# ------------------------------------------------------------------------------------------------
# F-array
# ------------------------------------------------------------------------------------------------

def _elem_field(kind, w, lo, array, enums):
    rng_ = [(lo, lo + w - 1)]
    if kind == "bool":
        f = bool_field("x", lo, array=array)
    elif kind == "uint":
        f = uint_field("x", rng_, array=array)
    elif kind == "sint":
        f = sint_field("x", rng_, array=array)
    elif kind in ("enum", "optenum"):
        f = enum_field("x", rng_, enums[(kind, w)], array=array)
    else:
        raise ValueError(kind)
    return f


def fam_array(tier, seed):
    rng = random.Random(seed * 104729 + 3)
    cases = []
    bases = [8, 16, 32, 64, 128, 24, 9, 100] if tier == "quick" else [8, 16, 32, 64, 128] + [1 + 1, 3, 7, 9, 12, 15, 17, 24, 31, 33, 48, 63, 65, 96, 100, 127]
    kinds = [("bool", 1), ("uint", 1), ("uint", 2), ("uint", 3), ("uint", 4), ("uint", 7), ("uint", 8), ("uint", 9),
             ("uint", 16), ("uint", 32), ("uint", 64), ("sint", 8), ("sint", 16), ("sint", 32), ("sint", 64),
             ("enum", 2), ("optenum", 3), ("enum", 8), ("optenum", 16), ("enum", 1), ("optenum", 5)]
    enums = {}
    for (k, w) in kinds:
        if k == "enum":
            enums[(k, w)] = std_enum("Ex%d" % w, w, True)
        elif k == "optenum":
            enums[(k, w)] = std_enum("En%d" % w, w, False)

    def emit(prefix, base, specs, seeded=False):
        out = []
        per = 16
        for k in range(0, len(specs), per):
            chunk = specs[k:k + per]
            fields = []
            helpers = {}
            for j, (kind, w, lo, K, stride, explicit, syntax) in enumerate(chunk):
                f = _elem_field(kind, w, lo, arr(K, stride if explicit else None, w, syntax), enums)
                f["name"] = "a%d" % j
                # a read-only and a write-only array among the writable ones (per-struct tables indexed by field number)
                if len(chunk) > 3 and j % 6 == 1:
                    f["access"] = "r"
                elif len(chunk) > 3 and j % 6 == 4:
                    f["access"] = "w"
                fields.append(f)
                if f["tyref"]:
                    helpers[f["tyref"]] = enums[(kind, w)]
            out.append(bitfield_case("%s_%03d" % (prefix, k // per), "array", base, fields, helpers=list(helpers.values()), seeded=seeded))
        return out

    for base in bases:
        specs = []
        seen = set()
        for (kind, w) in kinds:
            if 2 * w > base:
                continue
            kmax_dense = base // w
            for K in sorted({2, 3, kmax_dense}):
                if K < 2 or K > kmax_dense:
                    continue
                smax = (base - w) // (K - 1)
                for stride in sorted({w, w + 1, smax}):
                    if stride < w or (K - 1) * stride + w > base:
                        continue
                    extent = (K - 1) * stride + w
                    for lo in sorted({0, base - extent}):
                        key = (kind, w, lo, K, stride)
                        if key in seen:
                            continue
                        seen.add(key)
                        explicit = stride != w or (len(seen) % 2 == 0)
                        specs.append((kind, w, lo, K, stride, explicit, ":" if len(seen) % 5 == 0 else "="))
        cases += emit("ar%d" % base, base, specs)
    # seeded random arrays
    by_base = {}
    for _ in range(96 if tier == "quick" else 960):
        base = rng.choice([8, 16, 32, 64, 128] + all_arb_widths())
        (kind, w) = rng.choice(kinds)
        if 2 * w > base:
            continue
        K = rng.randint(2, min(base // w, 130))
        smax = (base - w) // (K - 1)
        stride = rng.choice([w, rng.randint(w, smax), smax])
        extent = (K - 1) * stride + w
        lo = rng.randint(0, base - extent)
        by_base.setdefault(base, []).append((kind, w, lo, K, stride, stride != w or rng.random() < 0.5, rng.choice("==:")))
    for base, specs in sorted(by_base.items()):
        cases += emit("ax%d" % base, base, specs, seeded=True)
    return cases


# ------------------------------------------------------------------------------------------------
# F-nc (range lists)
# ------------------------------------------------------------------------------------------------

def _split(total, parts, rng):
    """split `total` into `parts` positive sizes"""
    if parts == 1:
        return [total]
    cuts = sorted(rng.sample(range(1, total), parts - 1))
    return [b - a for a, b in zip([0] + cuts, cuts + [total])]


def random_disjoint_ranges(base, total, parts, rng, span=None):
    """`parts` pairwise disjoint ranges of `total` bits within [0, span), in random order"""
    span = span or base
    sizes = _split(total, parts, rng)
    free = span - total
    gaps = [0] * (parts + 1)
    for _ in range(free):
        gaps[rng.randrange(parts + 1)] += 1
    # avoid adjacent ranges merging visually is not required; adjacency is legal
    pos = 0
    ranges = []
    order = list(range(parts))
    for k in range(parts):
        pos += gaps[k]
        ranges.append((pos, pos + sizes[k] - 1))
        pos += sizes[k]
    rng.shuffle(order)
    return [ranges[i] for i in order]


def _list_field(rngs, kind_pref, array=None, enums=None):
    w = sum(hi - lo + 1 for lo, hi in rngs)
    if kind_pref == "sint" and w in NATIVE:
        return sint_field("x", rngs, array=array)
    return uint_field("x", rngs, array=array)


def fam_nc(tier, seed):
    rng0 = random.Random(12345)  # systematic core: fixed seed
    rng = random.Random(seed * 15485863 + 5)
    cases = []
    bases = [8, 16, 32, 64, 128, 24, 65, 127] if tier == "quick" else [8, 16, 32, 64, 128, 2, 3, 7, 9, 12, 17, 24, 31, 33, 63, 65, 100, 127]

    def emit(prefix, base, fields, seeded=False, per=12):
        return _pack(prefix, "nc", base, fields, per=per, seeded=seeded)

    for base in bases:
        fs = []
        # bit reversal of the low 8 / 16 bits, and of the whole base when small
        for n in (8, 16):
            if n <= base:
                fs.append(uint_field("x", [(b, b) for b in reversed(range(n))]))
                fs.append(uint_field("x", [(base - 1 - b, base - 1 - b) for b in range(n)]))
        if base >= 2:
            # two halves swapped, whole base
            h = base // 2
            fs.append(uint_field("x", [(h, base - 1), (0, h - 1)]))
        # totals hitting native and arbitrary widths, 2..6 parts, shuffled order
        for total in (2, 3, 5, 8, 9, 12, 16, 17, 32, 33, 64, 65, 100, 127, 128):
            if total > base:
                continue
            for parts in (2, 3, 4, 6):
                if parts > total:
                    continue
                rs = random_disjoint_ranges(base, total, parts, rng0)
                fs.append(_list_field(rs, "uint"))
                if total in NATIVE:
                    rs = random_disjoint_ranges(base, total, parts, rng0)
                    fs.append(_list_field(rs, "sint"))
        # lists touching the top bit and bit 0 in the last / first position
        if base >= 4:
            fs.append(uint_field("x", [(base - 1, base - 1), (0, 0)]))
            fs.append(uint_field("x", [(0, 0), (base - 1, base - 1)]))
            fs.append(uint_field("x", [(base - 2, base - 1), (0, 1)]))
        # wide parts: one 64-bit range plus one bit (128-bit bases), 127-bit lists
        if base == 128:
            fs.append(uint_field("x", [(64, 127), (0, 0)]))
            fs.append(uint_field("x", [(1, 64), (127, 127), (66, 66)]))
            fs.append(uint_field("x", [(1, 127), (0, 0)]))
            fs.append(sint_field("x", [(64, 127), (0, 63)]))
            fs.append(sint_field("x", [(0, 63), (64, 127)]))
        cases += emit("nl%d" % base, base, fs)
        # list arrays: non-interleaving and interleaving
        afs = []
        if base >= 8:
            afs.append(uint_field("x", [(0, 0), (2, 2)], array=arr(2, 1)))                     # interleave, K=2
            afs.append(uint_field("x", [(0, 0), (2, 2), (4, 4), (6, 6)], array=arr(2, 1)))     # even bits / odd bits
            afs.append(uint_field("x", [(1, 1), (0, 0)], array=arr(base // 2, 2)))             # swap pairs, fills the base
            afs.append(uint_field("x", [(2, 3), (0, 0)], array=arr(base // 4, 4)))
            afs.append(uint_field("x", [(0, 1), (4, 5)], array=arr(2, 2)))
            afs.append(uint_field("x", [(base - 4, base - 4), (base - 2, base - 2)], array=arr(2, 1, syntax=":")))   # top-aligned
        if base >= 32:
            afs.append(uint_field("x", [(8, 11), (0, 3)], array=arr(base // 16, 16)))          # u8 native elements from two nibbles
            afs.append(sint_field("x", [(4, 7), (0, 3)], array=arr(base // 8, 8)))             # i8 elements
            afs.append(uint_field("x", [(0, 7), (16, 23)], array=arr(2, 8)))                   # u16 native elements
        afs = [f for f in afs if _array_fits(f, base)]
        cases += emit("na%d" % base, base, afs)
    # every order of four adjacent single bits, and of three single bits inside a window of five (lists whose first / last entries look like the ends of a plain range)
    pf = [uint_field("x", [(b + 4, b + 4) for b in perm]) for perm in itertools.permutations(range(4))]
    pf += [uint_field("x", [(b, b) for b in perm]) for perm in itertools.permutations((2, 4, 7))] + [uint_field("x", [(b, b) for b in perm]) for perm in itertools.permutations((9, 10, 11))]
    pf += [uint_field("x", [(b + 20, b + 20) for b in (0, 2, 1, 3)], array=arr(2, 4)), uint_field("x", [(b + 40, b + 40) for b in (4, 1, 3, 2, 0)], array=arr(2, 8)), uint_field("x", [(3, 3), (1, 1), (2, 2), (0, 0)])]
    cases += emit("np64", 64, pf, per=12)
    # evenly spaced single bits (k >= 3, spacing 3..8) placed against the top of the storage, and long spaced lists
    for base in (8, 16, 32, 64, 128, 24):
        sf = []
        for sp in (3, 4, 5, 8):
            for k in (3, 4, 6):
                if (k - 1) * sp + 1 > base or k > sp + 3:
                    continue
                top = base - 1
                sf.append(uint_field("x", [(top - (k - 1 - j) * sp, top - (k - 1 - j) * sp) for j in range(k)]))
                if top - (k - 1) * sp - 1 >= 0:
                    sf.append(uint_field("x", [(top - 1 - (k - 1 - j) * sp, top - 1 - (k - 1 - j) * sp) for j in range(k)], access="r"))
        if sf:
            cases += emit("ns%d" % base, base, sf, per=12)
    # whole-byte pieces on byte boundaries that make up u24 / u40 / u48 / u56 (arbitrary-int results from byte-granular lists)
    for base in (64, 128, 100):
        bf = [uint_field("x", [(0, 7), (16, 23), (32, 39)]), uint_field("x", [(40, 47), (8, 15), (24, 31)]), uint_field("x", [(0, 15), (32, 55)]), uint_field("x", [(8, 15), (0, 7), (56, 63), (24, 31), (40, 47), (16, 23)]),
              uint_field("x", [(16, 39), (48, 63), (0, 15)]), uint_field("x", [(base - 8, base - 1), (0, 15)]) if base % 8 == 0 else uint_field("x", [(88, 95), (0, 15)])]
        cases += emit("ny%d" % base, base, bf, per=8)
    # byte permutations: every order of the four bytes of a u32, and a few orders of the bytes of u64 / u128 (whole-base native fields from aligned byte ranges)
    perm_fields = [uint_field("x", [(8 * b, 8 * b + 7) for b in perm]) for perm in itertools.permutations(range(4))]
    cases += emit("nb32", 32, perm_fields, per=8)
    prng = random.Random(4242)
    for base in (64, 128):
        nb = base // 8
        fs = [uint_field("x", [(8 * b, 8 * b + 7) for b in reversed(range(nb))])]
        for _ in range(7):
            perm = list(range(nb))
            prng.shuffle(perm)
            fs.append(uint_field("x", [(8 * b, 8 * b + 7) for b in perm]))
            mid = list(range(1, nb - 1))
            prng.shuffle(mid)
            fs.append(uint_field("x", [(8 * b, 8 * b + 7) for b in [nb - 1] + mid + [0]]))
        cases += emit("nb%d" % base, base, fs, per=8)
    # twins inside one struct (and therefore one macro process): identical range lists / ranges that differ in exactly one
    # other attribute, declared next to each other in both orders -- state carried from one field (or one invocation) to
    # the next shows up as a disagreement with the reference register
    for base in (32, 64, 128, 24):
        tw = [
            uint_field("x", [(0, 0), (4, 4)], array=arr(2, 8)), uint_field("x", [(0, 0), (4, 4)], array=arr(2, 1)),
            uint_field("x", [(0, 0), (4, 4)], array=arr(3, 2, syntax=":")), uint_field("x", [(0, 0), (4, 4)]),
            uint_field("x", [(4, 4), (0, 0)]), uint_field("x", [(4, 4), (0, 0)], array=arr(2, 8)),
            uint_field("x", [(8, 11)], array=arr(2, 4)), uint_field("x", [(8, 11)], array=arr(2, 6)), uint_field("x", [(8, 11)], array=arr(2, None, 4)), uint_field("x", [(8, 11)]),
            uint_field("x", [(8, 11)], array=arr(3, 4)), uint_field("x", [(8, 11)], access="r"), uint_field("x", [(8, 11)], access="w"),
            sint_field("x", [(8, 15)], array=arr(2, 8)), uint_field("x", [(8, 15)], array=arr(2, 8)), sint_field("x", [(8, 15)]), uint_field("x", [(8, 15)]),
            bool_field("x", 3, array=arr(4, 2)), bool_field("x", 3, array=arr(4, 1)), bool_field("x", 3), uint_field("x", [(3, 3)]),
        ]
        tw = [f for f in tw if (f["array"] is None and max(h for _, h in f["ranges"]) < base) or (f["array"] is not None and _array_fits(f, base))]
        cases += emit("nt%d" % base, base, [dict(f) for f in tw], per=32)
        cases += emit("nu%d" % base, base, [dict(f) for f in reversed(tw)], per=32)
    # thorough: all permutations of up to 4 ranges over fixed bit sets
    if tier == "thorough":
        for base in (16, 32, 24, 128):
            parts = [(0, 1), (3, 5), (8, 8), (10, 15)]
            fs = []
            for n in (2, 3, 4):
                for sub in itertools.combinations(parts, n):
                    for perm in itertools.permutations(sub):
                        fs.append(uint_field("x", list(perm)))
            if base == 128:
                parts = [(0, 0), (60, 67), (100, 126), (127, 127)]
                for n in (2, 3, 4):
                    for sub in itertools.combinations(parts, n):
                        for perm in itertools.permutations(sub):
                            fs.append(uint_field("x", list(perm)))
            cases += emit("np%d" % base, base, fs)
    # seeded random lists
    by_base = {}
    for _ in range(160 if tier == "quick" else 1600):
        base = rng.choice([8, 16, 32, 64, 128] + all_arb_widths())
        if base < 2:
            continue
        total = rng.randint(2, base)
        parts = rng.randint(2, min(6, total))
        if rng.random() < 0.25:
            # array of lists
            span = rng.randint(total, base)
            K = rng.randint(2, 6)
            rs = random_disjoint_ranges(base, total, parts, rng, span=span)
            f = _list_field(rs, rng.choice(["uint", "sint"]))
            extent = max(hi for _, hi in rs) + 1
            smax = (base - extent) // (K - 1)
            if smax < 1:
                continue
            f["array"] = arr(K, rng.randint(1, smax), syntax=rng.choice("=:"))
            if not _array_fits(f, base):
                continue
        else:
            rs = random_disjoint_ranges(base, total, parts, rng)
            f = _list_field(rs, rng.choice(["uint", "uint", "sint"]))
        f["access"] = rng.choice(["rw", "rw", "rw", "r", "w"])
        by_base.setdefault(base, []).append(f)
    for base, fs in sorted(by_base.items()):
        cases += emit("nx%d" % base, base, fs, seeded=True)
    return cases


def field_positions(f, i=0):
    off = i * (f["array"]["stride"] if f["array"] else 0)
    out = []
    for lo, hi in f["ranges"]:
        out += [p + off for p in range(lo, hi + 1)]
    return out


def _array_fits(f, base):
    K = f["array"]["count"]
    if K < 2:
        return False
    top = max(hi for _, hi in f["ranges"]) + (K - 1) * f["array"]["stride"]
    if top >= base:
        return False
    # C04 excludes lists that name the same bit twice: keep elements pairwise disjoint
    seen = set()
    for i in range(K):
        for p in field_positions(f, i):
            if p in seen:
                return False
            seen.add(p)
    return True


# ------------------------------------------------------------------------------------------------
# F-enum (stand-alone bitenums)
# ------------------------------------------------------------------------------------------------

def enum_case(cid, enum, seeded=False, tags=()):
    return dict(id=cid, family="enumf", kind="enum", enum=enum, seeded=seeded, tags=list(tags))


def fam_enum(tier, seed):
    rng = random.Random(seed * 32452843 + 7)
    cases = []
    n = 0

    def add(enum, seeded=False, tags=()):
        nonlocal n
        enum = dict(enum)
        enum["name"] = "E"
        cases.append(enum_case("en_%04d" % n, enum, seeded=seeded, tags=tags))
        n += 1

    # exhaustive, all widths up to 8, both syntaxes
    for bits in range(1, 9):
        add(make_enum("E", bits, list(range(1 << bits)), "true", syntax="=" if bits % 2 else ":"), tags=["exhaustive"])
        ds = list(range(1 << bits))
        random.Random(bits).shuffle(ds)
        add(make_enum("E", bits, ds, "true", radix="hex"), tags=["exhaustive", "shuffled"])
    # structured declaration orders of exhaustive enums: sorted inside blocks of 2 / 4 with the blocks out of order, one transposition of
    # neighbours / of distant entries in an otherwise ascending list, rotation by one, reversal
    for bits in (2, 3, 4, 6):
        space = 1 << bits
        asc = list(range(space))
        orders = []
        for blk in (2, 4):
            if blk < space:
                blocks = [asc[k:k + blk] for k in range(0, space, blk)]
                orders.append(blocks[0] + [x for b in reversed(blocks[1:]) for x in b])        # starts at 0, block-sorted
                orders.append([x for b in reversed(blocks) for x in b])
                inter = [asc[k] for k in range(0, space, 2)] + [asc[k] for k in range(1, space, 2)]   # evens then odds
                orders.append(inter)
                pairs = list(zip(asc[:space // 2], asc[space // 2:]))                        # (0, h), (1, h+1), ...: every pair ascending
                orders.append([x for pr in pairs for x in pr])
        t = list(asc); t[1], t[2] = t[2], t[1]; orders.append(t)
        t = list(asc); t[-2], t[-1] = t[-1], t[-2]; orders.append(t)
        t = list(asc); t[1], t[-2] = t[-2], t[1]; orders.append(t)
        orders.append(asc[1:] + asc[:1])
        orders.append(asc[-1:] + asc[:-1])
        orders.append(list(reversed(asc)))
        seen_o = set()
        for o in orders:
            if tuple(o) in seen_o or o == asc:
                continue
            seen_o.add(tuple(o))
            add(make_enum("E", bits, o, "true"), tags=["exhaustive", "structured-order"])
    # one-hot discriminants with and without the zero variant
    for bits in (4, 5, 8, 12, 16, 32, 40, 64):
        hot = [1 << k for k in range(0, bits, max(1, bits // 6))][:7]
        add(make_enum("E", bits, [0] + hot, "false", radix="hex"), tags=["nonexh", "one-hot"])
        add(make_enum("E", bits, hot, None, radix="bin" if bits <= 16 else "hex"), tags=["nonexh", "one-hot"])
        add(make_enum("E", bits, list(reversed(hot)) + [0], "false"), tags=["nonexh", "one-hot"])
    # 64-bit storage, many variants, several at and above 2^63
    add(make_enum("E", 64, [3 * k + 1 for k in range(12)] + [(1 << 63) + 5 * k for k in range(6)] + [(1 << 64) - 1, (1 << 63) - 1], "false", radix="hex"), tags=["nonexh", "many-variants", "above-2^63"])
    add(make_enum("E", 64, [(1 << 64) - 1 - 7 * k for k in range(20)] + [0], None, radix="hex"), tags=["nonexh", "many-variants", "above-2^63"])
    add(make_enum("E", 63, [(1 << 62) + k for k in range(17)] + [1], "false", radix="hex"), tags=["nonexh", "many-variants"])
    # the largest discriminant is 2^k - 1, 2^k or 2^k + 1 (bit-length shortcuts), alone and next to small ones
    for bits in (3, 5, 8, 9, 10, 12, 16, 17, 20, 24, 32, 33, 40, 48, 63, 64):
        for k in sorted({1, 3, bits // 2, bits - 1}):
            if k >= bits or k < 1:
                continue
            top = 1 << k
            add(make_enum("E", bits, [0, 5 % top, top] if top > 5 else [0, top], "false", radix="hex"), tags=["nonexh", "pow2-max"])
            if k in (bits - 1, bits // 2):
                add(make_enum("E", bits, [top], None), tags=["nonexh", "pow2-max"])
                add(make_enum("E", bits, sorted({1, top - 1}), "false", radix="hex"), tags=["nonexh", "pow2-max"])
                if top + 1 < (1 << bits):
                    add(make_enum("E", bits, [top + 1, 2], "false", radix="hex"), tags=["nonexh", "pow2-max"])
    # non-exhaustive over every width 1..64: {0, max}, singleton, few
    for bits in range(1, 65):
        space = 1 << bits
        add(make_enum("E", bits, [0, space - 1] if bits > 1 else [1], "false" if bits % 3 else None, syntax="=" if bits % 2 else ":"), tags=["nonexh"])
        add(make_enum("E", bits, [space - 1], "false"), tags=["nonexh", "singleton-max"])
        if bits >= 3:
            ds = sorted({0, 1, space // 2, space - 2, space - 1, (space - 1) & 0xFF, (space - 1) & 0xFFFF, ((space - 1) & 0xFFFFFFFF)})
            ds = [d for d in ds if d < space]
            if len(ds) >= space:
                ds = ds[:-1]
            add(make_enum("E", bits, ds, "false", radix="hex"), tags=["nonexh", "boundary"])
    # small discriminants in wide storage (a conversion that narrows the raw value would alias them)
    for bits in (9, 10, 12, 15, 16, 17, 20, 24, 31, 32, 33, 40, 48, 63, 64):
        add(make_enum("E", bits, [0, 5, 200], "false"), tags=["nonexh", "small-discriminants"])
        add(make_enum("E", bits, [255], None), tags=["nonexh", "small-discriminants"])
        if bits >= 17:
            add(make_enum("E", bits, [1, 0x1234, 0xFFFF], "false", radix="hex"), tags=["nonexh", "small-discriminants"])
        if bits >= 33:
            add(make_enum("E", bits, [2, 0x12345678, 0xFFFFFFFF], "false", radix="hex"), tags=["nonexh", "small-discriminants"])
    # many variants (tables / search structures instead of a plain match would show here): every boundary discriminant is a variant
    add(make_enum("E", 9, list(range(512)), "true"), tags=["exhaustive", "many-variants"])
    add(make_enum("E", 10, [3 * k + 1 for k in range(300)], "false"), tags=["nonexh", "many-variants"])
    add(make_enum("E", 16, [0] + [255 * k + 7 for k in range(1, 257)] + [65535], "false", radix="hex"), tags=["nonexh", "many-variants"])
    add(make_enum("E", 12, list(range(4095, 4095 - 1000, -1)), None), tags=["nonexh", "many-variants", "descending"])
    add(make_enum("E", 33, [(1 << 33) - 1 - 17 * k for k in range(260)], "false", radix="hex"), tags=["nonexh", "many-variants"])
    # literal spellings: octal, underscores
    add(make_enum("E", 6, [0, 0o17, 0o77, 8], "false", radix="oct"), tags=["nonexh", "octal"])
    add(make_enum("E", 3, list(range(8)), "true", radix="oct"), tags=["exhaustive", "octal"])
    add(make_enum("E", 20, [1_000, 1_000_000, 0], "false", radix="under"), tags=["nonexh", "underscore"])
    # an explicit repr narrower than the storage type (the discriminants fit it)
    for bits, rp, ds in ((12, "u8", [0, 3, 255]), (16, "u8", [1, 0x7f]), (20, "u16", [0, 0xffff, 5]), (40, "u32", [0, 3, 0xffff_ffff]), (9, "u8", [0, 200]), (64, "u16", [7, 9])):
        e_ = make_enum("E", bits, ds, "false")
        e_["repr"] = rp
        add(e_, tags=["nonexh", "narrow-repr"])
    # conditional enums with many cfg alternatives for one value (more than 2 * 2^N variants listed)
    add(make_enum("E", 1, [0, 1, 1, 1, 1], "conditional", cfg=[None, False, False, True, False], names=["Z", "A1", "A2", "A3", "A4"]), tags=["conditional", "many-alternatives"])
    add(make_enum("E", 2, [0, 1, 1, 1, 2, 2, 2, 3, 3], "conditional", cfg=[None, False, True, False, False, False, True, True, False], names=["Z", "A1", "A2", "A3", "B1", "B2", "B3", "C1", "C2"]), tags=["conditional", "many-alternatives"])
    # harmless cfg_attr attributes on variants are not cfg gating
    for exh, ds in (("true", [0, 1, 2, 3]), ("false", [0, 2]), (None, [1, 3])):
        e_ = make_enum("E", 2, ds, exh)
        e_["variants"][0] = dict(e_["variants"][0], pre_attrs=['#[cfg_attr(all(), doc = "documented when the predicate holds")]'])
        e_["variants"][-1] = dict(e_["variants"][-1], pre_attrs=["#[cfg_attr(any(), deprecated)]", "#[allow(dead_code)]"])
        add(e_, tags=["cfg_attr"])
    # 2^N - 1 variants (one missing), N <= 8
    for bits in range(1, 9):
        space = 1 << bits
        for missing in {0, space - 1, space // 2}:
            ds = [d for d in range(space) if d != missing]
            if ds:
                add(make_enum("E", bits, ds, "false"), tags=["nonexh", "one-missing"])
    # conditional: cfg-gated variants, present and absent; more than 2^N listed
    for bits in (1, 2, 3, 8, 16, 33, 64):
        space = 1 << bits
        ds = [0, 1] if bits == 1 else [0, 1, space - 1, 2 % space]
        ds = list(dict.fromkeys(ds))
        cfg = [None] + [True if k % 2 else False for k in range(1, len(ds))]
        add(make_enum("E", bits, ds, "conditional", cfg=cfg), tags=["conditional"])
    # conditional with duplicates across cfg (2^N + 1 listed): V0=0, V1=1 (off), V1b=1 (on), ...
    e = make_enum("E", 1, [0, 1, 1], "conditional", cfg=[None, False, True], names=["A", "B_off", "B_on"])
    add(e, tags=["conditional", "over-listed"])
    e = make_enum("E", 2, [0, 1, 1, 2, 3], "conditional", cfg=[None, False, True, None, None], names=["A", "B_off", "B_on", "C", "D"])
    add(e, tags=["conditional", "over-listed"])
    # several cfg attributes on one variant: it exists only when all of them hold
    for bits, exh in ((2, "conditional"), (3, "conditional"), (2, "false"), (9, None)):
        e_ = make_enum("E", bits, [0, 1, 2, 3], exh, cfg=[None, False, False, True], names=["A", "B", "C", "D"])
        e_["variants"][1] = dict(e_["variants"][1], pre_attrs=["#[cfg(all())]"])                  # true then false -> absent
        e_["variants"][2] = dict(e_["variants"][2], post_attrs=["#[cfg(all())]"])                 # false then true -> absent
        e_["variants"][3] = dict(e_["variants"][3], pre_attrs=["#[cfg(all())]"], post_attrs=["#[cfg(not(any()))]"])   # three true ones -> present
        if exh != "conditional":
            # only conditional enums may carry cfg attributes: keep the attribute stack on an otherwise plain enum out of this shape
            continue
        add(e_, tags=["conditional", "stacked-cfg"])
    # two alternatives for one value: the earlier one carries several cfg attributes (first true, a later one false) and is compiled out, the later one is live
    for bits in (2, 3, 12):
        e_ = make_enum("E", bits, [0, 1, 1, 2, 2, 3], "conditional", cfg=[None, False, True, False, None, True], names=["Z", "A_off", "A_on", "B_off", "B_on", "C"])
        e_["variants"][1] = dict(e_["variants"][1], pre_attrs=["#[cfg(all())]"])
        e_["variants"][3] = dict(e_["variants"][3], pre_attrs=["#[cfg(all())]", "#[cfg(not(any()))]"])
        add(e_, tags=["conditional", "stacked-cfg", "many-alternatives"])
    # wide conditional enums whose unconditional variants share a set bit / a clear bit that a compiled-in cfg variant does not share
    for bits in (9, 12, 16, 24, 33, 64):
        space = 1 << bits
        hi = 1 << (bits - 1)
        add(make_enum("E", bits, [hi | 1, hi | 3, 2, hi | 5, 0], "conditional", cfg=[None, None, True, None, False], radix="hex"), tags=["conditional", "shared-bit"])
        add(make_enum("E", bits, [1, 3, space - 2, 5, hi], "conditional", cfg=[None, None, True, None, True], radix="hex"), tags=["conditional", "shared-bit"])
    # variants that share a *name* under mutually exclusive cfgs and differ in their discriminant (only one exists in any build)
    for bits, live_first in ((2, True), (3, False), (12, True), (33, False)):
        top = (1 << bits) - 1
        e_ = make_enum("E", bits, [0, 1, top, 2], "conditional", cfg=[None, live_first, not live_first, None], names=["Z", "Mode", "Mode", "Last"])
        add(e_, tags=["conditional", "same-name"])
    # conditional enums listing exactly 2^N variants of which one is compiled out
    for bits in (1, 2, 3):
        space = 1 << bits
        for gone in sorted({0, space - 1, space // 2}):
            cfgs = [False if d == gone else (True if d % 2 else None) for d in range(space)]
            add(make_enum("E", bits, list(range(space)), "conditional", cfg=cfgs), tags=["conditional", "exactly-2^N-listed"])
    # conditional without any cfg attribute, fully listed
    add(make_enum("E", 2, [0, 1, 2, 3], "conditional"), tags=["conditional", "fully-listed"])
    if tier == "thorough":
        # all non-empty variant subsets for N <= 3
        for bits in (1, 2, 3):
            space = 1 << bits
            for m in range(1, 1 << space):
                ds = [d for d in range(space) if (m >> d) & 1]
                add(make_enum("E", bits, ds, "true" if len(ds) == space else "false"), tags=["subset"])
    # seeded random subsets
    for _ in range(48 if tier == "quick" else 400):
        bits = rng.choice(list(range(1, 17)) + [17, 24, 31, 32, 33, 48, 63, 64])
        space = 1 << bits
        nv = rng.randint(1, min(space - 1, 40)) if space > 1 else 1
        if space == 2:
            nv = 1
        ds = set()
        while len(ds) < nv:
            ds.add(rng.randrange(space) if rng.random() < 0.7 else rng.choice([0, space - 1, space // 2]))
        ds = list(ds)
        rng.shuffle(ds)
        add(make_enum("E", bits, ds, rng.choice(["false", None, "conditional"]), syntax=rng.choice("=:"), radix=rng.choice(["dec", "hex", "bin"])), seeded=True, tags=["random"])
    return cases


# ------------------------------------------------------------------------------------------------
# F-custom (enum-typed and nested-bitfield-typed fields)
# ------------------------------------------------------------------------------------------------

def nested_def(name, base, debug=True):
    """an inner bitfield used as a field type"""
    fields = []
    if base >= 2:
        h = base // 2
        fields.append(uint_field("lo", [(0, h - 1)]))
        fields.append(uint_field("hi", [(h, base - 1)]))
    else:
        fields.append(bool_field("b", 0))
    return bitfield_case(name, "inner", base, fields, debug=debug, name=name)


def with_path_types(case, cid):
    """the same case with its helper types in a module `inner` and every custom / arbitrary-int field type written as a path
    (`inner::E`, `Option<inner::E>`, `arbitrary_int::u4`) -- the spelling CHANGELOG 1.4.0 and the repository's own test document"""
    import copy
    c = copy.deepcopy(case)
    c["id"] = cid
    c["path_types"] = True
    for f in c["fields"]:
        if f["kind"] == "enum" or f["kind"] == "nested":
            f["ty_text"] = "inner::%s" % f["tyref"]
        elif f["kind"] == "optenum":
            f["ty_text"] = "Option<inner::%s>" % f["tyref"]
        elif f["kind"] == "uint" and not f["native"]:
            f["ty_text"] = "arbitrary_int::u%d" % f["width"]
    return c


def fam_custom(tier, seed):
    rng = random.Random(seed * 49979687 + 9)
    cases = []
    n = 0
    widths_exh = [1, 2, 3, 5, 8]
    widths_non = [1, 2, 3, 7, 8, 9, 15, 16, 17, 31, 32, 33, 63, 64]
    if tier == "thorough":
        widths_exh = list(range(1, 9))
        widths_non = list(range(1, 65))
    bases = [8, 16, 32, 64, 128, 24, 65, 127]

    def add(base, fields, helpers, seeded=False, debug=False):
        nonlocal n
        for j, f in enumerate(fields):
            f["name"] = "f%d" % j
        cases.append(bitfield_case("cu_%04d" % n, "custom", base, fields, helpers=helpers, seeded=seeded, debug=debug))
        n += 1

    def placements(base, w):
        return sorted({0, (base - w) // 2, base - w})

    for w in sorted(set(widths_exh) | set(widths_non)):
        for base in bases:
            if w > base:
                continue
            helpers = []
            fields = []
            if w in widths_exh:
                e = std_enum("Ex", w, True)
                helpers.append(e)
                for lo in placements(base, w):
                    fields.append(enum_field("x", [(lo, lo + w - 1)], e))
                if 2 * w <= base:
                    fields.append(enum_field("x", [(0, w - 1)], e, array=arr(2, None, w)))
                    K = base // w
                    fields.append(enum_field("x", [(base - K * w, base - K * w + w - 1)], e, array=arr(K, None, w)))
                if w >= 2 and w + 1 <= base:
                    # non-contiguous: top bit first
                    fields.append(enum_field("x", [(base - 1, base - 1), (0, w - 2)], e))
            if w in widths_non:
                e = std_enum("En", w, False)
                helpers.append(e)
                for lo in placements(base, w):
                    fields.append(enum_field("x", [(lo, lo + w - 1)], e))
                if 2 * w <= base:
                    fields.append(enum_field("x", [(0, w - 1)], e, array=arr(2, w + (1 if 2 * w + 1 <= base else 0))))
                if w >= 2 and w + 1 <= base:
                    fields.append(enum_field("x", [(1, w - 1), (base - 1, base - 1)], e))
                    if 2 * (w + 1) <= base and w >= 2:
                        fields.append(enum_field("x", [(1, w - 1), (0, 0)], e, array=arr(2, w)))
            if 2 <= w <= 8 and 2 * w <= base:
                for e in helpers:
                    # [0, 2, 4, ..] stride 1 (bit interleave) and two half-elements interleaved blockwise (stride = w / 2)
                    fields.append(enum_field("x", [(2 * b, 2 * b) for b in range(w)], e, array=arr(2, 1)))
                    top = base - 2 * w
                    fields.append(enum_field("x", [(top + 2 * b, top + 2 * b) for b in reversed(range(w))], e, array=arr(2, 1)))
                    if w % 2 == 0:
                        h = w // 2
                        fields.append(enum_field("x", [(0, h - 1), (w, w + h - 1)], e, array=arr(2, h)))
            if fields:
                add(base, fields, helpers)
    # nested bitfields: native and arbitrary inner bases, incl. 1 bit, full width, 128
    for iw in (1, 2, 7, 8, 9, 16, 24, 32, 33, 64, 65, 100, 127, 128):
        inner = nested_def("In", iw)
        for base in bases:
            if iw > base:
                continue
            fields = []
            for lo in placements(base, iw):
                fields.append(nested_field("x", [(lo, lo + iw - 1)], inner))
            if 2 * iw <= base:
                fields.append(nested_field("x", [(0, iw - 1)], inner, array=arr(2, None, iw)))
                fields.append(nested_field("x", [(base - 2 * iw, base - iw - 1)], inner, array=arr(2, iw)))
            if iw >= 2 and iw < base:
                fields.append(nested_field("x", [(base - 1, base - 1), (0, iw - 2)], inner))
            if iw in (2, 8, 16) and 2 * iw <= base:
                h = iw // 2
                fields.append(nested_field("x", [(0, h - 1), (iw, iw + h - 1)], inner, array=arr(2, h)))
                fields.append(nested_field("x", [(2 * b, 2 * b) for b in range(iw)], inner, array=arr(2, 1), access="w"))
            add(base, fields, [inner])
    # seeded random
    for _ in range(40 if tier == "quick" else 400):
        base = rng.choice([8, 16, 32, 64, 128] + all_arb_widths())
        w = rng.randint(1, min(base, 64))
        exh = w <= 6 and rng.random() < 0.5
        e = std_enum("Er", w, exh, rng=rng, nvar=rng.randint(1, 12))
        lo = rng.randint(0, base - w)
        fields = [enum_field("x", [(lo, lo + w - 1)], e, access=rng.choice(["rw", "rw", "r", "w"]))]
        if 2 * w <= base:
            K = rng.randint(2, min(base // w, 9))
            smax = (base - w) // (K - 1)
            stride = rng.randint(w, smax)
            lo2 = rng.randint(0, base - ((K - 1) * stride + w))
            fields.append(enum_field("x", [(lo2, lo2 + w - 1)], e, array=arr(K, stride)))
        if w >= 2:
            rs = random_disjoint_ranges(base, w, rng.randint(2, min(4, w)), rng)
            fields.append(enum_field("x", rs, e))
        add(base, fields, [e], seeded=True)
    # every third core case once more with its types written as paths
    core = [c for c in cases if not c.get("seeded")]
    for k, c in enumerate(core[::3]):
        cases.append(with_path_types(c, "cp_%04d" % k))
    return cases


# ------------------------------------------------------------------------------------------------
# F-mixed (realistic registers), F-overlap
# ------------------------------------------------------------------------------------------------

KEYWORD_NAMES = ["r#type", "r#match", "r#loop"]


def random_register(cid, base, rng, overlap=False, want_debug=None, seeded=True, family="mixed", complete=False, force_default=None):
    """1..10 fields of mixed kinds over `base` bits; non-overlapping unless `overlap`;
    `complete`: the fields are all writable and cover every bit (builder without default)"""
    helpers = {}
    fields = []
    nfields = rng.randint(1, 10)
    # carve the base into segments
    cuts = sorted(set(rng.randrange(1, base) for _ in range(min(base - 1, rng.randint(nfields, nfields + 4))))) if base > 1 else []
    segs = [(a, b - 1) for a, b in zip([0] + cuts, cuts + [base])]
    rng.shuffle(segs)
    if complete:
        nfields = len(segs)
    debug = want_debug if want_debug is not None else (rng.random() < 0.4)
    use_kw = (not debug) and rng.random() < 0.15
    for k, (lo, hi) in enumerate(segs[:nfields]):
        w = hi - lo + 1
        name = "f%d" % k
        if use_kw and k == 0:
            name = rng.choice(KEYWORD_NAMES)
        access = rng.choice(["rw", "rw", "rw", "rw", "r", "w", ""])
        if debug and access in ("w", ""):
            access = rng.choice(["rw", "r"])
        if complete:
            access = "rw" if debug else rng.choice(["rw", "rw", "w"])
        doc = "field %s of %s" % (name.replace("r#", ""), cid) if rng.random() < 0.5 else None
        choice = rng.random()
        f = None
        if w == 1 and choice < 0.6:
            f = bool_field(name, lo, access=access, doc=doc)
        elif w in NATIVE and choice < 0.35:
            f = sint_field(name, [(lo, hi)], access=access, doc=doc)
        elif w <= 6 and choice < 0.55:
            ename = "E%d" % k
            e = std_enum(ename, w, rng.random() < 0.5, rng=rng, nvar=rng.randint(1, 6))
            helpers[ename] = e
            f = enum_field(name, [(lo, hi)], e, access=access, doc=doc)
        elif w <= 64 and choice < 0.62 and w > 6:
            ename = "E%d" % k
            e = std_enum(ename, w, False, rng=rng, nvar=rng.randint(1, 6))
            helpers[ename] = e
            f = enum_field(name, [(lo, hi)], e, access=access, doc=doc)
        elif choice < 0.72 and w >= 2:
            iname = "In%d" % k
            inner = nested_def(iname, w)
            helpers[iname] = inner
            f = nested_field(name, [(lo, hi)], inner, access=access, doc=doc)
        elif (not debug) and choice < 0.85 and w >= 4:
            # array filling the segment (possibly with a gap stride)
            ew = rng.choice([x for x in (1, 2, 3, 4, 8) if 2 * x <= w and (not complete or w % x == 0)])
            K = rng.randint(2, min(w // ew, 16))
            smax = (w - ew) // (K - 1)
            stride = rng.choice([ew, smax, rng.randint(ew, smax)])
            if complete:
                K, stride = w // ew, ew
            a = arr(K, stride if (stride != ew or rng.random() < 0.5) else None, ew, syntax=rng.choice("==:"))
            if ew == 1 and rng.random() < 0.5:
                f = bool_field(name, lo, access=access, array=a, doc=doc)
            elif ew == 8 and rng.random() < 0.5:
                f = sint_field(name, [(lo, lo + 7)], access=access, array=a, doc=doc)
            else:
                f = uint_field(name, [(lo, lo + ew - 1)], access=access, array=a, doc=doc)
        elif choice < 0.92 and w >= 3:
            parts = rng.randint(2, min(4, w))
            sizes = _split(w, parts, rng)
            pos = lo
            rs = []
            for s in sizes:
                rs.append((pos, pos + s - 1))
                pos += s
            rng.shuffle(rs)
            f = uint_field(name, rs, access=access, doc=doc)
        else:
            f = uint_field(name, [(lo, hi)], access=access, doc=doc)
        fields.append(f)
    if overlap and len(fields) >= 1:
        # add fields that overlap existing ones
        for j in range(rng.randint(1, 3)):
            w = rng.randint(1, base)
            lo = rng.randint(0, base - w)
            fields.append(uint_field("o%d" % j, [(lo, lo + w - 1)], access=rng.choice(["rw", "rw", "r", "w"])))
        if debug:
            for f in fields:
                if f["access"] in ("w", ""):
                    f["access"] = "rw"
    fields.sort(key=lambda f: rng.random())
    dchoice = rng.random()
    default = None
    if force_default is not None:
        dchoice = 0.0 if force_default else 1.0
    if dchoice < 0.6:
        val = rng.choice([0, (1 << base) - 1, rng.getrandbits(base), 1 << (base - 1)])
        default = default_spec(val, form=rng.choice(["lit", "lit", "const"]), syntax=rng.choice("==:"), radix=rng.choice(["hex", "dec"]))
    return bitfield_case(cid, family, base, fields, default=default, debug=debug, helpers=list(helpers.values()), seeded=seeded,
                         name="Reg", doc=("register %s" % cid) if rng.random() < 0.5 else None)


def fam_mixed(tier, seed):
    cases = []
    rng0 = random.Random(424242)
    rng = random.Random(seed * 86028121 + 13)
    n = 0
    # systematic core (fixed seed): every base class, debug and non-debug, overlap and not
    core_bases = [8, 16, 32, 64, 128, 1, 2, 7, 9, 24, 33, 65, 100, 127]
    reps = 3 if tier == "quick" else 12
    for base in core_bases:
        for r in range(reps):
            cases.append(random_register("mx_%04d" % n, base, rng0, want_debug=(r % 3 == 0), seeded=False))
            n += 1
        for r in range(max(1, reps // 3)):
            cases.append(random_register("mo_%04d" % n, base, rng0, overlap=True, want_debug=False, seeded=False))
            n += 1
    cases += handwritten_mixed()
    withh = [c for c in cases if c.get("helpers")]
    for k, c in enumerate(withh[::2]):
        cases.append(with_path_types(c, "mp_%04d" % k))
    for _ in range(60 if tier == "quick" else 600):
        base = rng.choice([8, 16, 32, 64, 128] * 3 + all_arb_widths())
        cases.append(random_register("mr_%04d" % n, base, rng, overlap=rng.random() < 0.2))
        n += 1
    # free combinations of kind x shape x access x placement x names / docs / defaults (vf/wild.py)
    from . import wild
    cases += wild.wild_cases(tier, seed)
    return cases


def re_sub_suffix(text):
    import re
    return re.sub(r"[ui](8|16|32|64|128)$", "", text).replace("_", "")


def handwritten_mixed():
    """boundary shapes that must always be present"""
    out = []
    # complete coverage without default -> builder expected
    out.append(bitfield_case("mh_full32", "mixed", 32, [uint_field("a", [(0, 15)]), sint_field("b", [(16, 23)]), bool_field("c", 24), uint_field("d", [(25, 31)])], name="Reg"))
    # full-width single field, native and arbitrary base
    for b in (8, 16, 32, 64, 128, 24, 100, 127, 1):
        f = uint_field("all", [(0, b - 1)]) if b > 1 else bool_field("all", 0)
        out.append(bitfield_case("mh_fw%d" % b, "mixed", b, [f], name="Reg"))
        out.append(bitfield_case("mh_fwd%d" % b, "mixed", b, [dict(f)], default=default_spec((1 << b) - 1), name="Reg", debug=True))
    # [bool; 128] with builder
    out.append(bitfield_case("mh_bool128", "mixed", 128, [bool_field("bits", 0, array=arr(128, None, 1))], name="Reg"))
    # default with bits outside every field, read-only gap, write-only field
    out.append(bitfield_case("mh_gaps", "mixed", 32, [uint_field("a", [(4, 7)]), uint_field("ro", [(8, 11)], access="r"), uint_field("wo", [(12, 15)], access="w"), uint_field("no", [(16, 19)], access="")],
                             default=default_spec(0xDEADBEEF), name="Reg"))
    # zero writable fields + default -> builder with only build()
    out.append(bitfield_case("mh_ro_only", "mixed", 16, [uint_field("a", [(0, 7)], access="r")], default=default_spec(0x1234), name="Reg"))
    # legacy ':' default and named constant on an arbitrary base
    out.append(bitfield_case("mh_legacy24", "mixed", 24, [uint_field("a", [(0, 11)]), uint_field("b", [(12, 23)])], default=default_spec(0xABCDEF, form="const", syntax=":"), name="Reg"))
    # u65 base, i64 straddling the storage middle, default above it
    out.append(bitfield_case("mh_u65", "mixed", 65, [sint_field("s", [(1, 64)]), bool_field("z", 0)], default=default_spec(1 << 64), name="Reg", debug=True))
    # keyword identifiers
    out.append(bitfield_case("mh_kw", "mixed", 16, [uint_field("r#type", [(0, 3)]), bool_field("r#match", 4), uint_field("r#loop", [(8, 9)], array=arr(3, None, 2))], default=default_spec(0), name="Reg"))
    # overlap shapes (C12/C14)
    out.append(bitfield_case("mh_ov1", "mixed", 16, [uint_field("a", [(0, 7)]), uint_field("b", [(4, 11)])], default=default_spec(0), name="Reg"))
    out.append(bitfield_case("mh_ov2", "mixed", 16, [uint_field("a", [(0, 3)], array=arr(2, 4)), uint_field("b", [(7, 7), (12, 14)])], default=default_spec(0), name="Reg"))
    out.append(bitfield_case("mh_ov_ro", "mixed", 16, [uint_field("a", [(0, 7)]), uint_field("b", [(4, 11)], access="r")], default=default_spec(0), name="Reg"))
    # overlapping list-array elements
    out.append(bitfield_case("mh_ov_arr", "mixed", 16, [uint_field("a", [(0, 1), (3, 3)], array=arr(2, 1))], default=default_spec(0), name="Reg"))
    # same bit named twice in a scalar list (C12 aliasing / C14 no builder)
    out.append(bitfield_case("mh_self", "mixed", 16, [uint_field("a", [(0, 3), (2, 5)], access="rw")], default=default_spec(0), name="Reg", tags=["self-overlap"]))
    # more lists that name a bit twice (legal; only C09 acceptance, C14 builder absence and C16 totality apply to them):
    # doubly covered top storage bit, and a range as wide as the storage integer inside a list
    out.append(bitfield_case("mh_self2", "mixed", 8, [uint_field("a", [(4, 7), (6, 7)])], name="Reg", tags=["self-overlap"]))
    out.append(bitfield_case("mh_self3", "mixed", 8, [uint_field("a", [(0, 7), (0, 7)], access="r")], name="Reg", tags=["self-overlap"]))
    out.append(bitfield_case("mh_self4", "mixed", 8, [uint_field("a", [(0, 3), (0, 7)])], name="Reg", tags=["self-overlap", "compile-only"]))
    out.append(bitfield_case("mh_self5", "mixed", 32, [uint_field("a", [(0, 31), (31, 31)])], default=default_spec(0), name="Reg", tags=["self-overlap", "compile-only"]))
    out.append(bitfield_case("mh_self6", "mixed", 64, [uint_field("a", [(0, 0), (0, 63)], access="r"), bool_field("b", 63)], name="Reg", tags=["self-overlap"]))
    out.append(bitfield_case("mh_self7", "mixed", 128, [uint_field("a", [(127, 127), (120, 127)])], name="Reg", tags=["self-overlap"]))
    out.append(bitfield_case("mh_self8", "mixed", 24, [uint_field("a", [(16, 23), (23, 23), (0, 3)])], name="Reg", tags=["self-overlap"]))
    # a self-overlapping list whose range lengths add up to the storage width, next to an unrelated field
    out.append(bitfield_case("mh_self9", "mixed", 16, [uint_field("a", [(0, 7), (4, 11)]), uint_field("other", [(12, 15)])], name="Reg", tags=["self-overlap"]))
    out.append(bitfield_case("mh_self10", "mixed", 8, [uint_field("a", [(0, 3), (2, 5)]), uint_field("other", [(6, 7)])], name="Reg", tags=["self-overlap"]))
    out.append(bitfield_case("mh_self11", "mixed", 64, [uint_field("a", [(8, 39), (24, 55)]), uint_field("lo", [(0, 7)]), uint_field("hi", [(56, 63)])], default=default_spec(0), name="Reg", tags=["self-overlap"]))
    # identifiers: leading underscore, keyword + underscore, single letters, digits inside
    out.append(bitfield_case("mh_names", "mixed", 32, [uint_field("_reserved", [(0, 3)]), uint_field("type_", [(4, 7)]), bool_field("loop_", 8), uint_field("_", [(9, 10)], access="r") if False else uint_field("__x", [(9, 10)], access="r"),
                                                        uint_field("self_", [(11, 12)], access="w"), sint_field("r#fn", [(16, 23)]), uint_field("x9_y", [(24, 27)], array=None), bool_field("_flag_", 31)],
                             default=default_spec(0xb00b, text="0xb00b"), name="Reg"))
    # hexadecimal / octal / binary default literals whose digits look like radix markers
    for k, (base, text) in enumerate(((8, "0xb"), (16, "0xb0"), (32, "0xbb00b"), (24, "0xb0_0b00"), (64, "0xb000_0000_0000_0000"), (16, "0xe"), (32, "0xe0b"), (8, "0o17"), (8, "0b1011"), (16, "0b0"), (128, "0x0b"), (9, "0x00b"))):
        out.append(bitfield_case("mh_hexdef%d" % k, "mixed", base, [uint_field("a", [(0, 3)])], default=default_spec(int(text.replace("_", ""), 0), text=text, syntax="=:"[k % 2]), name="Reg"))
    # decimal literals with leading zeros are decimal (010 == 10) in positions, strides and defaults
    f1 = dict(uint_field("a", [(10, 17)]), attr_text="#[bits(010..=017, rw)]")
    f2 = dict(bool_field("b", 20), attr_text="#[bit(020, rw)]")
    f3 = dict(uint_field("c", [(1, 1), (7, 9)]), attr_text="#[bits([01, 007..=09], rw)]")
    f4 = dict(uint_field("d", [(24, 25)], array=arr(3, 10)), attr_text="#[bits(024..=025, rw, stride = 010)]")
    out.append(bitfield_case("mh_lead0", "mixed", 64, [f1, f2, f3, f4], default=default_spec(100, text="0100"), name="Reg"))
    out.append(bitfield_case("mh_lead0b", "mixed", 32, [dict(f1), dict(f2)], default=default_spec(100, text="0100", syntax=":"), name="Reg"))
    out.append(bitfield_case("mh_lead0c", "mixed", 14, [uint_field("a", [(0, 3)])], default=default_spec(12, text="0_012", syntax=":"), name="Reg"))
    out.append(bitfield_case("mh_lead0d", "mixed", 128, [uint_field("a", [(0, 3)])], default=default_spec(777000, text="00_777_000"), name="Reg"))
    # named default constants whose names also occur inside generated code
    for k, cname in enumerate(("MAX_VALUE", "ZERO", "DEFAULT_RAW_VALUE", "MASK", "VALUE", "CLEAR_MASK", "DEFAULT")):
        base = (14, 24, 32, 72, 9, 128, 16)[k]
        out.append(bitfield_case("mh_cname%d" % k, "mixed", base, [uint_field("a", [(0, 3)]), uint_field("b", [(1, 1), (5, 7)], array=None)], default=default_spec(0x123 & ((1 << base) - 1), form="const", const_name=cname, syntax="=:"[k % 2]), name="Reg"))
    # wide literal defaults (above u64::MAX) whose low half is small
    for k, (base, val) in enumerate(((128, 1 << 127), (128, 0x55_0000_0000_0000_00AA), (100, (1 << 99) + 5), (65, 1 << 64), (127, (1 << 126) | (1 << 64) | 1), (72, 0xAB_0000_0000_0000_0000))):
        out.append(bitfield_case("mh_wide%d" % k, "mixed", base, [uint_field("a", [(0, 3)])], default=default_spec(val, radix="hex" if k % 2 == 0 else "dec", syntax="=:"[k % 2]), name="Reg"))
    # range lists with more than 32 entries
    out.append(bitfield_case("mh_long64", "mixed", 64, [uint_field("rev", [(b, b) for b in reversed(range(64))])], name="Reg"))
    out.append(bitfield_case("mh_long33", "mixed", 128, [uint_field("even", [(2 * b, 2 * b) for b in range(33)], array=arr(2, 1))], name="Reg"))
    out.append(bitfield_case("mh_long40", "mixed", 128, [uint_field("mix", [(b * 3, b * 3 + (b % 2)) for b in range(40)]), bool_field("top", 127)], default=default_spec(0), name="Reg"))
    out.append(bitfield_case("mh_long128", "mixed", 128, [uint_field("rev", [(b, b) for b in reversed(range(128))], access="rw")], name="Reg"))
    # field names: upper case, and names that begin like generated method names
    nm = [uint_field("IRQ_EN", [(0, 3)]), bool_field("TxData", 4), uint_field("set_point", [(5, 6)]), uint_field("with_parity", [(7, 8)]), bool_field("get_x", 9, access="r"),
          uint_field("set_only", [(10, 11)], access="w"), uint_field("with_", [(12, 13)], array=arr(2, None, 2)), sint_field("Set_Mixed", [(16, 23)]), uint_field("new_with", [(24, 26)], access="r"),
          bool_field("builder_", 27), bool_field("raw_value_", 28, access="w"), uint_field("X", [(29, 29), (31, 31)])]
    out.append(bitfield_case("mh_names2", "mixed", 32, nm, default=default_spec(0x0F0F_0F0F), name="Reg"))
    out.append(bitfield_case("mh_names3", "mixed", 24, [dict(f) for f in nm if f["ranges"][-1][1] < 24 and "w" in f["access"]], name="Reg"))
    # the user's own attributes on the struct (the macro adds its own repr/derives next to them)
    for k, extra in enumerate((["#[repr(C)]"], ["#[repr(align(1))]"], ["#[derive(PartialEq, Eq, Hash)]", "#[repr(C)]"], ["#[allow(dead_code)]", "#[cfg_attr(all(), allow(unused))]"], ["#[repr(C)]"])):
        base = (32, 8, 24, 128, 100)[k]
        c = bitfield_case("mh_uattr%d" % k, "mixed", base, [uint_field("a", [(0, 3)]), bool_field("b", base - 1, access=("rw", "r")[k % 2])], default=(default_spec(5, form=("lit", "const")[k % 2]) if k != 1 else None), name="Reg", debug=(k == 3))
        c["extra_attrs"] = extra
        out.append(c)
    # declarations that reach the attribute macro through a macro_rules! macro: base type and default arrive as `ty` / `expr` / `literal` fragments
    for k, (base, dform, frag, syntax) in enumerate(((32, "const", "expr", "="), (24, "const", "expr", ":"), (16, "lit", "expr", "="), (64, "lit", "literal", ":"), (128, "const", "expr", "="), (9, "const", "ident", "="))):
        c = bitfield_case("mh_viam%d" % k, "mixed", base, [uint_field("a", [(0, 3)]), bool_field("b", base - 1)], default=default_spec((0xA5A5 << 3 | 1) & ((1 << base) - 1), form=dform, syntax=syntax), name="Reg")
        c["via_macro"] = frag
        out.append(c)
    # a signed field that is the whole storage integer (readable, writable, both), on every native base
    for b in (8, 16, 32, 64, 128):
        for acc in ("rw", "r", "w"):
            out.append(bitfield_case("mh_sfw%d%s" % (b, acc), "mixed", b, [sint_field("all", [(0, b - 1)], access=acc)], name="Reg", default=(default_spec(1 << (b - 1)) if acc != "rw" else None), debug=(acc == "r")))
    # no fields at all
    out.append(bitfield_case("mh_empty0", "mixed", 32, [], name="Reg"))
    out.append(bitfield_case("mh_empty1", "mixed", 8, [], name="Reg", debug=True, default=default_spec(3)))
    out.append(bitfield_case("mh_empty2", "mixed", 100, [], name="Reg", debug=True))
    # views: a field whose range is exactly tiled by fields declared before it (most significant part first, least significant first, three parts), and the reverse order
    out.append(bitfield_case("mh_view0", "mixed", 16, [uint_field("major", [(12, 15)]), uint_field("minor", [(8, 11)]), uint_field("version", [(8, 15)]), uint_field("lo", [(0, 3)]), uint_field("mid", [(4, 7)], access="r"), uint_field("low_byte", [(0, 7)])], name="Reg"))
    out.append(bitfield_case("mh_view1", "mixed", 32, [uint_field("c", [(8, 11)]), uint_field("a", [(0, 3)]), uint_field("b", [(4, 7)]), uint_field("abc", [(0, 11)], access="r"), uint_field("whole", [(0, 31)]), sint_field("top", [(24, 31)]), uint_field("t_hi", [(28, 31)]), uint_field("t_lo", [(24, 27)]),
                                                  bool_field("t_sign", 31, access="r")], default=default_spec(0x8421_1248), name="Reg"))
    out.append(bitfield_case("mh_view2", "mixed", 64, [uint_field("w1", [(32, 63)]), uint_field("w0", [(0, 31)]), uint_field("all", [(0, 63)]), uint_field("h", [(16, 31)], array=arr(2, 32)), uint_field("h1", [(48, 63)], access="r"), uint_field("b", [(8, 15)], array=arr(4, None, 8)), uint_field("b2", [(24, 31)]),
                                                  uint_field("b0", [(8, 15)], access="r")], name="Reg"))
    out.append(bitfield_case("mh_view3", "mixed", 24, [uint_field("code", [(4, 11)]), bool_field("flag", 9), uint_field("nib", [(8, 11)]), uint_field("crumb", [(6, 7)], access="r"), uint_field("gain", [(12, 15)], array=arr(3, None, 4)), uint_field("gain1", [(16, 19)]), uint_field("gain2", [(20, 23)], access="r")], name="Reg"))
    # command registers: exactly one writable field (write-only), every other bit covered by read-only fields
    for k, (base, lo, w) in enumerate(((8, 0, 4), (16, 4, 8), (32, 0, 8), (32, 24, 8), (64, 16, 32), (24, 8, 8), (128, 64, 64), (9, 3, 3))):
        fs = []
        if lo > 0:
            fs.append(uint_field("status_lo", [(0, lo - 1)], access="r"))
        fs.append((sint_field if (w in NATIVE and k % 2) else uint_field)("command", [(lo, lo + w - 1)], access="w"))
        if lo + w < base:
            rest = base - lo - w
            if rest > 64:
                fs.append(uint_field("status_mid", [(lo + w, lo + w + 63)], access="r"))
                fs.append(uint_field("status_hi", [(lo + w + 64, base - 1)], access="r")) if lo + w + 64 < base else None
                fs = [f for f in fs if f]
            else:
                fs.append(uint_field("status_hi", [(lo + w, base - 1)], access="r"))
        out.append(bitfield_case("mh_cmd%d" % k, "mixed", base, fs, name="Reg", default=(default_spec((1 << base) - 1) if k % 3 == 0 else None)))
    # arbitrary-int bases with an array whose count x stride exceeds the storage integer although every element lies below bit N (size and alignment stay those of the storage integer)
    for k, (base, ew, stride) in enumerate(((20, 2, 17), (12, 1, 9), (40, 4, 35), (24, 4, 20), (65, 8, 57), (100, 16, 84), (9, 1, 8))):
        out.append(bitfield_case("mh_wide_stride%d" % k, "mixed", base, [uint_field("e", [(0, ew - 1)], array=arr(2, stride)), bool_field("mid", ew)], name="Reg", default=(default_spec(1 << (base - 1)) if k % 2 else None)))
    # default literals with the storage type as suffix
    for k, (base, text) in enumerate(((32, "0x12_3456u32"), (24, "0xAB_CDEFu32"), (8, "200u8"), (64, "1_000_000_007u64"), (128, "0xFFu128"), (9, "0b1_0000_0001u16"))):
        val = int(re_sub_suffix(text), 0)
        out.append(bitfield_case("mh_sufdef%d" % k, "mixed", base, [uint_field("a", [(0, 3)])], default=default_spec(val, text=text, syntax="=:"[k % 2]), name="Reg"))
    # field-less bitfields written as unit structs
    for k, base in enumerate((8, 24, 128)):
        c = bitfield_case("mh_unit%d" % k, "mixed", base, [], name="Reg", default=(default_spec(1) if k else None), debug=(k == 1))
        c["unit_struct"] = True
        out.append(c)
    # the user's own trait impls for the generated type (the macro must not emit impls that could collide with them)
    for k, base in enumerate((32, 24, 8)):
        c = bitfield_case("mh_uimpl%d" % k, "mixed", base, [uint_field("a", [(0, 3)]), bool_field("b", base - 1)], name="Reg", default=default_spec(3))
        c["user_impls"] = True
        out.append(c)
    # one-piece lists as array elements: contiguous, so no stride is required
    g1 = dict(uint_field("nib", [(4, 7)], array=arr(3, None, 4)), attr_text="#[bits([4..=7], rw)]")
    g2 = dict(bool_field("fl", 0, array=arr(4, None, 1)), attr_text="#[bit([0], rw)]")
    g3 = dict(uint_field("by", [(16, 23)], array=arr(2, 12)), attr_text="#[bits([16..=23], rw, stride = 12)]")
    out.append(bitfield_case("mh_spell2", "mixed", 64, [g1, g2, g3], name="Reg"))
    # accepted spellings of a list: under `bit(`, single-entry lists
    f1 = dict(uint_field("scr", [(9, 9), (2, 2), (12, 12), (5, 5)]), attr_text="#[bit([9, 2, 12, 5], rw)]")
    f2 = dict(uint_field("one", [(3, 3)]), attr_text="#[bits([3], rw)]", form="list")
    f3 = dict(bool_field("flag", 4), attr_text="#[bit([4], rw)]")
    f4 = dict(uint_field("pair", [(6, 6), (8, 8)], array=arr(2, 1)), attr_text="#[bit([6, 8], rw, stride = 1)]")
    f5 = dict(uint_field("rng", [(10, 11)]), attr_text="#[bits([10..=11], rw)]", form="list")
    f6 = dict(sint_field("desc", [(15, 15), (14, 14), (13, 13), (1, 1), (0, 0), (23, 23), (22, 22), (21, 21)]), attr_text="#[bit([15, 14, 13, 1, 0, 23, 22, 21], rw)]")
    out.append(bitfield_case("mh_spell", "mixed", 24, [f1, f2, f3, f4, f5, f6], name="Reg", default=default_spec(0)))
    # struct documentation that mentions the traits the macro implements (a textual look at the attributes must not mistake it for a derive)
    for k, (base, dbg) in enumerate(((32, False), (24, True), (128, False), (8, True))):
        out.append(bitfield_case("mh_docword%d" % k, "mixed", base, [uint_field("a", [(0, 3)]), bool_field("b", base - 1)], name="Reg", default=default_spec(0x15), debug=dbg,
                                 doc="Default timer configuration: derive(Default, Debug, Clone, Copy, PartialEq) is not needed, see Default::default() and #[repr(C)]"))
    # attribute arguments in every order: strided arrays with range / access / stride permuted (an explicit stride written before the
    # range must survive), scalars with the access specifier first
    import itertools
    perms = list(itertools.permutations(range(3)))
    for k, (base, sc) in enumerate(((64, 1), (60, 1), (128, 2))):
        fs = []
        for j, p in enumerate(perms):
            f = uint_field("a%d" % j, [(3 * j * sc, 3 * j * sc + 2 * sc - 1)], array=arr(3, 20 * sc, syntax="=" if j % 2 == 0 else ":"))
            f["arg_order"] = list(p)
            fs.append(f)
        f = bool_field("fl", 18 * sc, array=arr(3, 20 * sc))
        f["arg_order"] = [2, 0, 1]
        fs.append(f)
        if base != 60:
            f = uint_field("li", [(59 * sc, 59 * sc), (61 * sc, 61 * sc)], array=arr(2, 1))
            f["arg_order"] = [2, 1, 0]
            fs.append(f)
            f = bool_field("top", base - 1)
            f["arg_order"] = [1, 0]
            fs.append(f)
        f = uint_field("s", [(38, 39)], access="r") if sc == 2 else uint_field("s", [(19, 19)], access="r")
        f["arg_order"] = [1, 0]
        fs.append(f)
        out.append(bitfield_case("mh_argord%d" % k, "mixed", base, fs, name="Reg", default=(default_spec(0) if k else None)))
    # one-bit fields spelled as a range (lo == hi)
    f1 = uint_field("x", [(3, 3)])
    f1["form"] = "bits"
    f2 = uint_field("y", [(8, 8)], array=arr(8, None, 1))
    f2["form"] = "bits"
    out.append(bitfield_case("mh_bits1", "mixed", 16, [f1, f2], name="Reg"))
    return out


# ------------------------------------------------------------------------------------------------
# F-base
# ------------------------------------------------------------------------------------------------

def fam_base(tier, seed):
    rng = random.Random(seed * 67867967 + 17)
    cases = []
    widths = list(range(1, 129))
    for n in widths:
        forms = [None,
                 default_spec((1 << n) - 1, "lit", "="),
                 default_spec(1 << (n - 1), "const", ":" if n % 2 else "="),
                 default_spec(rng.getrandbits(n), "lit", ":" if n % 3 == 0 else "=", radix="dec" if n % 2 else "hex")]
        if tier == "quick" and n not in NATIVE and n not in ARB_FIXED and n % 8 not in (0, 1, 7):
            forms = [None, forms[1 + n % 3]]
        for k, d in enumerate(forms):
            # a single narrow field so that most default bits are covered by no field
            fields = [bool_field("b", 0)] if n < 3 else [uint_field("a", [(1, min(n - 2, 3))])]
            cases.append(bitfield_case("ba%d_%d" % (n, k), "base", n, fields, default=d, seeded=(k == 3), name="Reg"))
    return cases


def fam_bld(tier, seed):
    """cases for which the rules expect a builder: complete coverage without default, or a default"""
    rng0 = random.Random(777)
    rng = random.Random(seed * 2038074743 + 19)
    cases = []
    n = 0
    bases = [8, 16, 32, 64, 128, 2, 9, 24, 65, 100, 127]
    reps = 3 if tier == "quick" else 12
    for base in bases:
        for r in range(reps):
            cases.append(random_register("bc_%04d" % n, base, rng0, want_debug=False, seeded=False, family="bld", complete=True, force_default=False))
            n += 1
            cases.append(random_register("bd_%04d" % n, base, rng0, want_debug=False, seeded=False, family="bld", force_default=True))
            n += 1
        # one array filling the whole base
        for ew, kind in ((1, "bool"), (1, "uint"), (2, "uint"), (4, "uint"), (8, "uint"), (8, "sint"), (16, "sint")):
            if base % ew or base // ew < 2:
                continue
            a = arr(base // ew, None, ew)
            f = bool_field("e", 0, array=a) if kind == "bool" else (sint_field("e", [(0, ew - 1)], array=a) if kind == "sint" else uint_field("e", [(0, ew - 1)], array=a))
            cases.append(bitfield_case("ba_%04d" % n, "bld", base, [f], name="Reg"))
            n += 1
        # arrays of K in {2, 3, 16, 64} with gaps + default whose bits lie in the gaps
        for K in (2, 3, 16, 64):
            if 2 * K > base:
                continue
            f = uint_field("e", [(0, 0)], array=arr(K, 2))
            ones = (1 << base) - 1
            cases.append(bitfield_case("bg_%04d" % n, "bld", base, [f], default=default_spec(ones), name="Reg"))
            n += 1
        # lowest-to-highest extents of the writable fields add up to the base width, yet holes remain that keep the default's bits
        if base >= 16:
            ones = (1 << base) - 1
            q = max(1, base // 8)
            for dv in (ones, rng0.getrandbits(base) | (1 << (base // 2)), 0):
                cases.append(bitfield_case("bh_%04d" % n, "bld", base, [uint_field("split", [(0, q - 1), (base - q, base - 1)])], default=default_spec(dv), name="Reg"))
                n += 1
            if base % 8 == 0:
                K = base // 8
                cases.append(bitfield_case("bh_%04d" % n, "bld", base, [uint_field("nib", [(0, 3)], array=arr(K, 8)), uint_field("top", [(base - 4, base - 1)], access="w")], default=default_spec(ones), name="Reg"))
                n += 1
            cases.append(bitfield_case("bh_%04d" % n, "bld", base, [uint_field("split", [(0, q - 1), (base - q, base - 1)]), uint_field("status", [(q, base - q - 1)], access="r")],
                                       default=default_spec(rng0.getrandbits(base) | 1 << q), name="Reg"))
            n += 1
        # arrays under a literal default whose element 0 is zero while later elements are not (and the reverse)
        if base >= 32:
            K = base // 8
            dv = 0
            for i in range(1, K):
                dv |= (0xA5 ^ (i * 0x1B) & 0xFF | 1) << (8 * i)
            cases.append(bitfield_case("be_%04d" % n, "bld", base, [uint_field("e", [(0, 7)], array=arr(K, None, 8))], default=default_spec(dv & ((1 << base) - 1)), name="Reg"))
            n += 1
            cases.append(bitfield_case("be_%04d" % n, "bld", base, [sint_field("e", [(0, 7)], array=arr(K // 2, 16)), uint_field("o", [(8, 11)], array=arr(K // 2, 16))],
                                       default=default_spec(dv & ((1 << base) - 1)), name="Reg"))
            n += 1
            cases.append(bitfield_case("be_%04d" % n, "bld", base, [uint_field("e", [(4, 6)], array=arr(K, 8))], default=default_spec(((1 << base) - 1) & ~0x70), name="Reg"))
            n += 1
        # two interleaved strided arrays covering the base, the one that starts at bit 0 declared second (no default: complete coverage)
        if base % 16 == 0:
            K = base // 8
            cases.append(bitfield_case("bi_%04d" % n, "bld", base, [uint_field("odd", [(4, 7)], array=arr(K, 8)), uint_field("even", [(0, 3)], array=arr(K, 8))], name="Reg"))
            n += 1
            K2 = base // 16
        if base % 16 == 0 and base >= 32:
            cases.append(bitfield_case("bi_%04d" % n, "bld", base, [uint_field("hi", [(8, 15)], array=arr(K2, 16)), uint_field("lo", [(0, 7)], array=arr(K2, 16))], name="Reg"))
            n += 1
            cases.append(bitfield_case("bi_%04d" % n, "bld", base, [sint_field("hi", [(8, 15)], array=arr(K2, 16), access="w"), uint_field("lo", [(0, 7)], array=arr(K2, 16))], default=default_spec(1 << (base - 1)), name="Reg"))
            n += 1
        if base >= 64:
            # byte arrays with strides 24 and 32 (byte-granular but not dense)
            cases.append(bitfield_case("bi_%04d" % n, "bld", base, [uint_field("b24", [(8, 15)], array=arr(2, 24)), uint_field("b32", [(0, 7)], array=arr(2, 32), access="w")], default=default_spec((1 << base) - 1), name="Reg"))
            n += 1
        # an accessor-less ("reserved") or read-only field laid over writable ones, under a default: build() returns what was written
        if base >= 16:
            ones = (1 << base) - 1
            cases.append(bitfield_case("bv_%04d" % n, "bld", base, [uint_field("a", [(0, 7)]), uint_field("reserved", [(4, 11)], access=""), uint_field("b", [(8, 15)], access="w")], default=default_spec(ones), name="Reg"))
            n += 1
            cases.append(bitfield_case("bv_%04d" % n, "bld", base, [uint_field("reserved", [(0, base - 1)], access=""), uint_field("a", [(base - 8, base - 1)]), bool_field("f", 0)], default=default_spec(rng0.getrandbits(base) | 1), name="Reg"))
            n += 1
            cases.append(bitfield_case("bv_%04d" % n, "bld", base, [uint_field("a", [(2, 5)], array=arr(2, 6)), uint_field("view", [(0, 15)], access="r"), uint_field("rsv", [(3, 3), (9, 9)], access="")], default=default_spec(0xA5A5 & ones), name="Reg"))
            n += 1
        # write-only flags and a strobe next to a default (every writable field, whatever its kind, is a builder step)
        if base >= 8:
            cases.append(bitfield_case("bw_%04d" % n, "bld", base, [bool_field("strobe", 0, access="w"), uint_field("u1w", [(1, 1)], access="w"), bool_field("rwb", 2), bool_field("many", 3, access="w", array=arr(3, None, 1)),
                                                                     sint_field("s", [(base - 8, base - 1)], access="w") if base >= 16 else bool_field("last", 7, access="w")],
                                       default=default_spec(1 << (base - 1)), name="Reg"))
            n += 1
        # list fields: swapped halves (complete), bit reversal of the low byte + default
        if base >= 2:
            h = base // 2
            cases.append(bitfield_case("bl_%04d" % n, "bld", base, [uint_field("x", [(h, base - 1), (0, h - 1)])], name="Reg"))
            n += 1
        if base >= 8:
            cases.append(bitfield_case("bl_%04d" % n, "bld", base, [uint_field("x", [(b, b) for b in reversed(range(8))])], default=default_spec((1 << base) - 1), name="Reg"))
            n += 1
            cases.append(bitfield_case("bl_%04d" % n, "bld", base, [uint_field("x", [(1, 1), (0, 0)], array=arr(base // 2, 2)), ] + ([bool_field("t", base - 1)] if base % 2 else []), name="Reg"))
            n += 1
    for _ in range(40 if tier == "quick" else 400):
        base = rng.choice([8, 16, 32, 64, 128] * 2 + all_arb_widths())
        if rng.random() < 0.5:
            cases.append(random_register("br_%04d" % n, base, rng, want_debug=False, family="bld", complete=True, force_default=False))
        else:
            cases.append(random_register("br_%04d" % n, base, rng, want_debug=False, family="bld", force_default=True))
        n += 1
    return cases


def fam_dbgf(tier, seed):
    """`debug` bitfields: readable scalar fields of every kind"""
    rng0 = random.Random(999)
    rng = random.Random(seed * 472882027 + 23)
    cases = []
    n = 0
    reps = 3 if tier == "quick" else 10
    for base in [8, 16, 32, 64, 128, 1, 3, 9, 24, 65, 100, 127]:
        for r in range(reps):
            cases.append(random_register("dg_%04d" % n, base, rng0, want_debug=True, seeded=False, family="dbgf"))
            n += 1
    # every kind in one struct
    e_x = std_enum("Ex", 2, True)
    e_n = std_enum("En", 3, False)
    inner = nested_def("In", 8)
    for base in (64, 100, 128):
        fields = [bool_field("flag", 0), uint_field("small", [(1, 5)]), uint_field("byte", [(6, 13)]), sint_field("signed", [(14, 21)]),
                  enum_field("mode", [(22, 23)], e_x), enum_field("opt", [(24, 26)], e_n), nested_field("inner", [(27, 34)], inner),
                  uint_field("scattered", [(40, 43), (36, 37)], access="r"), sint_field("wide", [(base - 32, base - 1)])]
        cases.append(bitfield_case("dk_%04d" % n, "dbgf", base, fields, helpers=[e_x, e_n, inner], debug=True, name="Everything", default=default_spec(0)))
        n += 1
    # raw identifiers: the field's name is the identifier without the r# escape
    for base in (16, 24):
        cases.append(bitfield_case("dw_%04d" % n, "dbgf", base, [uint_field("r#type", [(0, 3)]), bool_field("r#match", 4), sint_field("r#loop", [(8, 15)]), uint_field("plain", [(5, 7)], access="r")],
                                   debug=True, name="Keywords", default=default_spec(0x1234)))
        n += 1
    cases.append(bitfield_case("dw_%04d" % n, "dbgf", 32, [uint_field("r#ref", [(0, 3)]), bool_field("r#return", 4), uint_field("r#r", [(5, 6)]), uint_field("rr", [(7, 8)]), uint_field("r#use", [(9, 12)]),
                                                          uint_field("r#fn", [(13, 14)]), uint_field("raw", [(15, 16)], access="r")], debug=True, name="Keywords2"))
    n += 1
    cases.append(bitfield_case("dw_%04d" % n, "dbgf", 32, [uint_field("type_", [(0, 3)]), bool_field("loop_", 4), uint_field("_reserved", [(5, 6)], access="r"), uint_field("self_", [(7, 8)]), uint_field("__", [(9, 12)]),
                                                          uint_field("mode_", [(13, 14)]), uint_field("_", [(15, 16)]) if False else uint_field("a_", [(15, 16)])], debug=True, name="Names"))
    n += 1
    # by-value trait methods named like the fields, implemented for the struct in the scope of its declaration (method resolution inside the generated code must still find the getters)
    for base in (16, 100):
        c = bitfield_case("dt_%04d" % n, "dbgf", base, [uint_field("state", [(0, 3)]), bool_field("ready", 4), sint_field("level", [(8, 15)]), uint_field("val", [(5, 6)]), uint_field("len", [(7, 7)], access="r")], debug=True, name="Hij", default=default_spec(0x1234))
        c["byvalue_trait"] = True
        cases.append(c)
        n += 1
    # a single field of a custom type that is the whole bitfield (a "newtype" in shape, still printed as a struct with a named field)
    for base, kind in ((8, "nested"), (16, "nested"), (8, "enum"), (16, "optenum"), (2, "enum"), (24, "nested"), (3, "optenum"), (128, "nested")):
        h = nested_def("In", base) if kind == "nested" else std_enum("Ex", base, kind == "enum")
        f = nested_field("inner", [(0, base - 1)], h) if kind == "nested" else enum_field("inner", [(0, base - 1)], h)
        cases.append(bitfield_case("dn_%04d" % n, "dbgf", base, [f], helpers=[h], debug=True, name="Wrap", default=(default_spec(0) if base % 16 == 0 else None)))
        n += 1
    # fields with identical ranges whose types render differently (enum / integer, unsigned / signed, nested / integer), both orders
    e_s = std_enum("Speed", 2, True)
    e_o = std_enum("Mode", 3, False)
    inn = nested_def("In", 8)
    al2 = [enum_field("speed", [(0, 1)], e_s), uint_field("speed_raw", [(0, 1)], access="r"), uint_field("mode_raw", [(2, 4)]), enum_field("mode", [(2, 4)], e_o, access="r"), uint_field("byte", [(8, 15)]), sint_field("sbyte", [(8, 15)], access="r"),
           nested_field("inner", [(16, 23)], inn), uint_field("inner_raw", [(16, 23)], access="r"), uint_field("mix", [(24, 27), (5, 7), (31, 31)]), sint_field("smix", [(24, 27), (5, 7), (31, 31)], access="r"), bool_field("b", 30), uint_field("b_raw", [(30, 30)], access="r")]
    cases.append(bitfield_case("da_%04d" % n, "dbgf", 32, al2, helpers=[e_s, e_o, inn], debug=True, name="Alias2"))
    n += 1
    # field names that begin like generated method names, upper-case names
    cases.append(bitfield_case("dw_%04d" % n, "dbgf", 32, [uint_field("with_parity", [(0, 3)]), bool_field("set_point", 4), uint_field("with_", [(5, 6)]), uint_field("IRQ_EN", [(7, 8)]), uint_field("TxData", [(9, 12)]),
                                                          sint_field("get_value", [(16, 23)]), uint_field("with_with_x", [(24, 25)], access="r"), bool_field("r#with", 31) if False else bool_field("withal", 31)], debug=True, name="Prefixes"))
    n += 1
    # aliases: fields with exactly the same bits and type, fields hidden from the documentation, attribute-style docs
    al = [uint_field("status", [(0, 7)], access="r"), uint_field("command", [(0, 7)]), uint_field("data", [(8, 15)]), uint_field("data_again", [(8, 15)], access="r"),
          uint_field("mix", [(16, 19), (24, 27)]), uint_field("mix2", [(16, 19), (24, 27)], access="r"), bool_field("f", 31), bool_field("g", 31, access="r")]
    cases.append(bitfield_case("da_%04d" % n, "dbgf", 32, al, debug=True, name="Alias"))
    n += 1
    hid = [uint_field("upper", [(8, 15)]), dict(uint_field("scratch", [(4, 7)]), extra_attrs=["#[doc(hidden)]"]), dict(uint_field("lower", [(0, 3)]), doc="documented", doc_form="attr"),
           dict(bool_field("flag", 16), doc="documented by concat", doc_form="concat"), dict(uint_field("both", [(17, 18)]), doc="visible", extra_attrs=["#[doc(hidden)]", "#[doc(alias = \"two\")]"])]
    cases.append(bitfield_case("dh_%04d" % n, "dbgf", 24, hid, debug=True, name="Hid"))
    n += 1
    # more fields than any fixed-size table or chunk would hold
    for (base, nf) in ((64, 35), (128, 70), (64, 64)):
        fs = [bool_field("b%d" % k, k, access=("rw", "r")[k % 2]) for k in range(nf - 3)] + [uint_field("n", [(nf - 3, nf - 2)]), sint_field("s", [(base - 8, base - 1)]) if nf + 8 <= base else bool_field("z", nf - 1),
                                                                                               bool_field("last", base - 9 if nf + 8 <= base else base - 1)]
        fs = [f for k, f in enumerate(fs) if f["name"] != "z" or True]
        cases.append(bitfield_case("dm_%04d" % n, "dbgf", base, fs, debug=True, name="Many", default=default_spec(0)))
        n += 1
    for _ in range(30 if tier == "quick" else 300):
        base = rng.choice([8, 16, 32, 64, 128] * 2 + all_arb_widths())
        cases.append(random_register("dr_%04d" % n, base, rng, want_debug=True, family="dbgf"))
        n += 1
    return cases


def fam_probe11(tier, seed):
    """C11 probe declarations: rule-INVALID fields that lie above bit N-1 of an arbitrary-int base but inside its
    storage integer. A correct macro rejects every one of them (then nothing runs); if one is accepted the C11
    monitor runs on it and shows the hidden state."""
    from . import rejects
    cases = []
    n = 0
    for t in rejects.twins(tier, seed):
        neg = t["neg"]
        if t["rule"] != "beyond-base-width" or neg["base"] in NATIVE or neg.get("base_text") or t["kind"] == "huge":
            continue
        top = 0
        for f in neg["fields"]:
            k = f["array"]["count"] if f["array"] else 1
            top = max(top, max(field_positions(f, k - 1)))
        if top >= neg["storage"]:
            continue
        c = dict(neg, id="pb_%04d" % n, family="probe11", tags=["probe-beyond-width", t["shape"]], seeded=False)
        n += 1
        cases.append(c)
    return cases


def fam_mirif(tier, seed):
    """small boundary sample of the other families for the Miri evaluator: fields trimmed to <= 4 per struct"""
    import copy
    out = []
    n = 0
    picks = dict(single=24, array=16, nc=12, custom=16, mixed=16, base=16, bld=12, dbgf=8, enumf=16)
    for fam, want in picks.items():
        cs = [c for c in family(fam, "quick", seed) if not c.get("seeded")]
        if fam == "mixed":
            cs = [c for c in cs if "self-overlap" not in c.get("tags", [])]
        step = max(1, len(cs) // want)
        for c in cs[::step][:want]:
            c = copy.deepcopy(c)
            c["id"] = "mi_%03d_%s" % (n, c["id"])
            c["family"] = "mirif"
            n += 1
            if c["kind"] == "bitfield":
                fs = c["fields"]
                if len(fs) > 4:
                    # keep first, last and two from the middle (boundary placements live at the ends of the packed structs)
                    keep = sorted({0, len(fs) // 3, 2 * len(fs) // 3, len(fs) - 1})
                    c["fields"] = [fs[i] for i in keep]
                for f in c["fields"]:
                    if f["array"] and f["array"]["count"] > 6:
                        pass
                used = {f["tyref"] for f in c["fields"] if f["tyref"]}
                c["helpers"] = [h for h in c.get("helpers", []) if h["name"] in used]
            elif len(c["enum"]["variants"]) > 40:
                continue
            out.append(c)
    return out


FAMILIES = {
    "mirif": fam_mirif,
    "probe11": fam_probe11,
    "bld": fam_bld,
    "dbgf": fam_dbgf,
    "single": fam_single,
    "array": fam_array,
    "nc": fam_nc,
    "enumf": fam_enum,
    "custom": fam_custom,
    "mixed": fam_mixed,
    "base": fam_base,
}
_cache = {}


def family(name, tier, seed):
    key = (name, tier, seed)
    if key not in _cache:
        _cache[key] = FAMILIES[name](tier, seed)
        ids = [c["id"] for c in _cache[key]]
        assert len(ids) == len(set(ids)), "duplicate case ids in " + name
    return _cache[key]
