"""Writes /verif/MANIFEST.json from one table (run: python3 -m vf.manifest)."""
import json
import os
import subprocess

VERIF = os.path.dirname(os.path.dirname(os.path.abspath(__file__)))

RT = "reference-model monitor at the API boundary of the generated code (per-bit reference register, dbg+rel profiles, panic recorder)"
CO = "compile-outcome monitor: rustc diagnostics of generated programs judged by an independent rule oracle"

CHECKS = {
    "C01": (RT, "4 C01", "Every getter of every generated layout is called on boundary, walking-bit, isolation-twin and seeded random raw values (all 2^B raws on bases <= 12/16 bits) and compared with a per-bit reference register; all (lo,hi) placements on the native bases (quick) / on all bases (thorough) are enumerated, so a defect keyed on a placement cannot hide, one keyed on a single 128-bit constant can."),
    "C02": (RT, "4 C02", "with_/set_ on every writable field (contiguous and range-list) for boundary x boundary (raw, value) pairs (all pairs on small bases): result storage, receiver, read-back and with_/set_ agreement are compared with the reference register under two (thorough: four) build profiles."),
    "C03": (RT, "4 C03", "Array elements are written while all others hold distinct non-zero values and compared bit for bit with the reference register; a hostile index set (K, K+1, 2K, storage width, 2^32, wrap-around multiples of the stride, usize::MAX) must panic in getter, with_ and set_ under every profile and leave the object unchanged."),
    "C04": (RT, "4 C04", "Range-list fields (shuffled orders, bit reversal, native and arbitrary totals, interleaving list arrays) are read and written with single-bit and complement values; gather/scatter order is decided by the reference register's declaration-order positions."),
    "C05": (RT, "4 C05", "iN fields of every N at bottom/middle/top of native and arbitrary bases, as scalars, arrays and lists: min, -1, max etc. written over raw 0 and all-ones; sign-extension leaks show as a storage mismatch with the reference register."),
    "C06": (RT, "4 C06", "Raw round trip on all 128 base widths (all values up to 16 bits, boundary + random above), ZERO/DEFAULT/Default/new against the declared default in literal/constant and =/: forms, size_of/align_of against the smallest native integer, Copy by a compile-time bound."),
    "C07": (RT, "4 C07", "Every bitenum of the family (all widths 1..64, exhaustive, non-exhaustive, conditional) is converted from all 2^N values (N <= 16) or discriminants, neighbours and random values, and back, against the catalog's discriminant table."),
    "C08": (RT, "4 C08", "Enum-, Option<enum>- and nested-bitfield-typed fields (widths 1..64 incl. the native-width path, arrays, range lists) are read and written for every variant / boundary inner value against the reference register and the discriminant table."),
    "C09": (CO, "4 C09", "Every rule-valid declaration of the catalog must compile and every one-edit rule-invalid twin (bits beyond the base width for scalars, lists, arrays on native and arbitrary bases; type width incl. custom types without a getter; bool; K<2; stride; lo>hi incl. empty reversed ranges; numbers near usize::MAX; other argument orders; bad base) must be rejected with an error located in the declaration; every twin pair is also compiled inside one unit in alternating order; the oracle is three-valued and unspecified shapes are never judged. Thorough: macro built with and without overflow checks."),
    "C10": (CO + " + run-time sweep of every accepted enum", "4 C10", "Accept/reject twins for every rule (count vs 2^N, discriminant range, exhaustive flag in all spellings, cfg vs conditional, literal discriminants, storage type) over N in 1..=8 and the storage-class edges; all accepted enums are then converted at run time under both profiles (exhaustive ones over all 2^N values)."),
    "C11": (RT + "; register invariant and rewrap comparison after every step", "4 C11", "Histories of with_/set_ on every arbitrary-int layout with the invariants 'storage < 2^N', 'raw_value() never panics and equals the state' and 'new_with_raw_value(x.raw_value()) is indistinguishable from x through every getter and Debug'; probe declarations above bit N-1 are monitored whenever the macro accepts one."),
    "C12": (RT + " stepped in lock-step over operation histories", "4 C12", "Seeded histories (many short, one long) over mixed, overlapping, array and list layouts with the state compared after every step, getters sampled, commutation and aliasing probes, bits outside writable fields watched; full single-step transition relation on bases <= 8 bits."),
    "C13": (RT, "4 C13", "builder()...build() on every layout for which the rules expect a builder (complete without default, or default with gaps/read-only fields; arrays up to 128 elements, lists, signed, enum, nested) against default/zero + every write, and against the same with_ calls."),
    "C14": (CO + " (type-state probes)", "4 C14", "Probe programs: builder presence exactly when the rule oracle expects it (overlapping fields, overlapping elements, self-overlapping lists, gaps with/without default), full chain compiles, every proper prefix / one-step-removed / transposed chain and steps for non-writable fields fail with E0599."),
    "C15": ("CTFE-vs-runtime differential monitor with the reference register as third party", "4 C15", "A generated const fn probe per case calls every const operation; const items force rustc's const evaluator, the same probe runs at run time, both are compared with the reference register; any error inside the probe or the const items (E0015 non-const call, E0080 evaluation failed, ...) is a violation naming the operation."),
    "C16": ("multi-profile differential monitor with panic recorder", "4 C16", "The complete workloads of all run-time monitors are executed under dbg (overflow checks, debug assertions, opt 0) and rel (none, opt 3) (thorough: also the crossed profiles); any panic for an in-range operation is a violation and per-case observation digests must be identical across profiles."),
    "C17": (CO + " (method-presence probes)", "4 C17", "One probe per (field, method): getter / with_ / set_ / builder step (wherever the rules expect a builder) compile exactly when the access specifier grants them and fail with E0599 otherwise, for every field kind x {r, w, rw, none}; the run-time part (bits no writable field covers never change) is watched in the C12 histories."),
    "C18": (CO + " in a #![no_std] #![deny(missing_docs)] crate + expansion-dump scan at the verif_hooks hook", "4 C18", "Documented, pub versions of the catalog (doc comments in ///, #[doc = ..], concat! and doc(hidden) form) compile with zero diagnostics in a no_std/deny(missing_docs) crate that can only see bitbybit and arbitrary_int, once more inside modules that shadow Result/Ok/Err/Default, and (path-typed declarations) in modules that import no arbitrary_int name; every macro expansion dumped by the hook is parsed with syn and walked for unsafe constructs and for path heads outside core/arbitrary_int/Self/user types. Thorough: macro built both ways."),
    "C19": (RT + " with a #[derive(Debug)] shadow struct as the format oracle", "4 C19", "{:?} and {:#?} of debug bitfields with every readable scalar field kind, for boundary and random raws, against a same-named plain struct with #[derive(Debug)] filled from the reference register; the text must not change after new_with_raw_value(raw_value())."),
}

NOTE_RT = "Trusted: the generated glue (one line per operation, peek of the storage integer), the catalog<->text correspondence, rustc. Held on the layouts/inputs/profiles listed in the evidence, not for all inputs."
NOTE_CO = "Trusted: rustc's diagnostics and span expansion chains, the rule oracle's reading of the README/property statement. Programs outside the generated grammar are not judged."


def main():
    props_ = [json.loads(l) for l in open(os.path.join(VERIF, "properties.jsonl"))]
    commits = subprocess.check_output(["git", "-C", "/repo", "log", "--format=%h %s"]).decode().splitlines()
    hook_commits = [c.split()[0] for c in commits if "verif_hooks" in c]
    checks = []
    for p in props_:
        pid = p["id"]
        tech, ref, text = CHECKS[pid]
        checks.append(dict(property_id=pid, quick_cmd="./check %s --tier quick" % pid, thorough_cmd="./check %s --tier thorough" % pid, evidence_file="evidence/%s.json" % pid,
                           replay_cmd_template="./check %s --replay {path}" % pid, engine="vf+vrt",
                           level_claimed=dict(category="exploration", text=text, design_ref="DESIGN.md section " + ref),
                           level_note=NOTE_CO if tech.startswith("compile-outcome") else NOTE_RT, technique=tech))
    m = dict(version=1, setup_cmd="./check --setup",
             hooks=dict(guard="verif_hooks", enable="cargo feature `verif_hooks` of bitbybit: every check builds a content-synced snapshot of /repo/bitbybit (out/snap) as a path dependency with features=[\"verif_hooks\"]; env BITBYBIT_VERIF_DUMP_DIR=<dir> switches the expansion dump on (used by C18)",
                        baseline_off_cmd="cd /repo && cargo test --workspace --no-fail-fast --offline", source_commits=hook_commits, add_only=True),
             engines=[dict(name="vrt", path="harness/vrt", serves_properties=["C01", "C02", "C03", "C04", "C05", "C06", "C07", "C08", "C10", "C11", "C12", "C13", "C15", "C16", "C19"], kind_free_text="Rust: reference register, hostile workloads, monitors, panic recorder, digests"),
                      dict(name="vf", path="vf", serves_properties=[p["id"] for p in props_], kind_free_text="Python: catalog/generator, rule oracle, Rust emitter, build driver, compile-outcome monitor, evidence writer"),
                      dict(name="expmon", path="harness/expmon", serves_properties=["C18"], kind_free_text="Rust (syn visit): scanner of dumped macro expansions")],
             checks=checks,
             notes="Verdicts are three-valued: exit 0 held on what was observed, exit 1 + VIOLATION line, exit 2 + INCONCLUSIVE line (build/watchdog/coverage-floor problems are never reported as violations). See DESIGN.md.",
             not_applicable=[])
    with open(os.path.join(VERIF, "MANIFEST.json"), "w") as f:
        json.dump(m, f, indent=1)
    print("MANIFEST.json written:", len(checks), "checks")


if __name__ == "__main__":
    main()
