"""`wild` registers: the seeded part of the mixed family that combines features freely instead of one at a time.

Every earlier round of independently seeded changes was missed, on the first pass, only where the catalog had no layout of the
required shape; the shapes were always *combinations* (an access mix among arrays, a view tiled by earlier fields, a list array of a
custom type with a small stride, a default with zeros in one element, ...). This generator draws such combinations at random:

  field kind   x  uint / bool / sint / exhaustive enum / Option<enum> / nested bitfield
  field shape  x  one range / list (gaps, any order) / array of ranges (any stride >= width, also odd and byte-multiples) / array of lists (interleaving allowed)
  access       x  rw / r / w / none
  placement    x  disjoint, or overlapping other fields (never itself), or an exact alias / a view tiled by earlier fields
  names, doc forms, default forms (structured values: per field zero / ones / random), debug, user attributes

Nothing here is obtained from the macro; the records have exactly the format of the hand-written cases.
"""
import random

from . import catalog as C

NAME_POOL = ["set_point", "with_parity", "get_x", "IRQ_EN", "TxData", "Set_Mixed", "builder_", "raw_value_", "new_with", "X", "_reserved", "type_", "loop_", "__x", "self_",
             "r#type", "r#match", "r#loop", "r#fn", "r#ref", "value", "index", "mask", "x9_y", "_flag_", "with_", "default_", "zero", "field_value", "bits"]
DOC_FORMS = ["///", "attr", "concat", "after", "split", "blank-first", "blank-mid"]
STRUCT_ATTRS = [["#[repr(C)]"], ["#[repr(align(1))]"], ["#[derive(PartialEq, Eq)]"], ["#[allow(dead_code)]"], ["#[cfg_attr(all(), allow(unused))]"]]


def _positions(ranges, array):
    out = []
    k = array["count"] if array else 1
    st = array["stride"] if array else 0
    for i in range(k):
        for lo, hi in ranges:
            out += list(range(lo + i * st, hi + i * st + 1))
    return out


def _pick_width(kind, rng, limit):
    if kind == "bool":
        return 1
    if kind == "sint":
        ws = [w for w in (8, 16, 32, 64, 128) if w <= limit]
        return rng.choice(ws) if ws else None
    if kind == "enum":
        return rng.randint(1, min(limit, 6))
    if kind == "optenum":
        return rng.choice([w for w in (1, 2, 3, 4, 5, 7, 8, 9, 12, 16, 17, 31, 32, 33, 63, 64) if w <= limit] or [1])
    if kind == "nested":
        return rng.choice([w for w in (2, 3, 7, 8, 9, 16, 24, 32, 33, 64, 65, 100, 128) if w <= limit] or [2]) if limit >= 2 else None
    # uint: boundary-biased
    cands = [1, 2, 3, 4, 5, 7, 8, 9, 12, 15, 16, 17, 24, 31, 32, 33, 40, 48, 56, 63, 64, 65, 96, 127, 128]
    cands = [w for w in cands if w <= limit]
    return rng.choice(cands + [rng.randint(1, limit)])


def _make_field(kind, name, ranges, access, array, helpers, rng, k):
    w = sum(hi - lo + 1 for lo, hi in ranges)
    if kind == "bool":
        f = C.bool_field(name, ranges[0][0], access=access, array=array)
    elif kind == "sint":
        f = C.sint_field(name, ranges, access=access, array=array)
    elif kind in ("enum", "optenum"):
        ename = "W%s%d" % ("x" if kind == "enum" else "n", k)
        e = C.std_enum(ename, w, kind == "enum", rng=rng, nvar=rng.randint(1, 7))
        if kind == "optenum" and w == 1:
            e = C.make_enum(ename, 1, [rng.randint(0, 1)], "false")
        helpers[ename] = e
        f = C.enum_field(name, ranges, e, access=access, array=array)
    elif kind == "nested":
        iname = "Wi%d" % k
        inner = C.nested_def(iname, w)
        helpers[iname] = inner
        f = C.nested_field(name, ranges, inner, access=access, array=array)
    else:
        f = C.uint_field(name, ranges, access=access, array=array)
    return f


def wild_register(cid, base, rng, seeded=True, family="mixed"):
    helpers = {}
    fields = []
    used_w = set()      # bit positions writable through some field already
    used_any = set()
    overlap_ok = rng.random() < 0.35
    debug = rng.random() < 0.35
    nf = rng.randint(1, 9)
    names = set()
    tries = 0
    while len(fields) < nf and tries < 60:
        tries += 1
        k = len(fields)
        kind = rng.choice(["uint", "uint", "uint", "bool", "sint", "enum", "optenum", "nested"])
        shape = rng.choice(["range", "range", "list", "array", "array", "listarray"])
        if kind == "bool" and shape in ("list", "listarray"):
            shape = "array" if shape == "listarray" else "range"
        access = rng.choice(["rw", "rw", "rw", "r", "r", "w", "w", ""])
        if debug and access in ("w", ""):
            access = rng.choice(["rw", "r"])
        if debug and shape in ("array", "listarray"):
            # `debug` structs: readable scalar fields only (documented; C19)
            shape = "range" if shape == "array" else "list"
        w = _pick_width(kind, rng, min(base, 128) if shape in ("range", "list") else max(1, min(base // 2, 64)))
        if w is None or w > base:
            continue
        if shape in ("list", "listarray") and w < 2:
            shape = "range" if shape == "list" else "array"
        array = None
        if shape == "range":
            lo = rng.choice([0, base - w, rng.randint(0, base - w)])
            ranges = [(lo, lo + w - 1)]
        elif shape == "list":
            parts = rng.randint(2, min(5, w))
            span = rng.choice([base, min(base, w + rng.randint(0, 8)), min(base, 2 * w)])
            span = max(span, w)
            off = rng.randint(0, base - span)
            ranges = [(a + off, b + off) for a, b in C.random_disjoint_ranges(base, w, parts, rng, span=span)]
        else:
            if shape == "listarray":
                parts = rng.randint(2, min(4, w))
                espan = min(base, w + rng.randint(1, 6))
                if espan <= w:
                    continue
                el = C.random_disjoint_ranges(base, w, parts, rng, span=espan)
            else:
                espan = w
                el = [(0, w - 1)]
            kmax = min(16, 1 + (base - espan) // max(1, w))
            if kmax < 2:
                continue
            K = rng.randint(2, kmax)
            smax = (base - espan) // (K - 1)
            if smax < w:
                continue
            cands = {w, smax, rng.randint(w, smax)} | {s for s in (w + 1, 2 * w, 8, 16, 24, 32, 40, 48, espan, espan + 1) if w <= s <= smax}
            stride = rng.choice(sorted(cands))
            extent = (K - 1) * stride + espan
            off = rng.choice([0, base - extent, rng.randint(0, base - extent)])
            ranges = [(a + off, b + off) for a, b in el]
            explicit = (shape == "listarray") or stride != w or rng.random() < 0.5
            array = C.arr(K, stride if explicit else None, w, syntax=rng.choice("==:"))
        pos = _positions(ranges, array)
        if len(set(pos)) != len(pos) or max(pos) >= base:
            continue                      # never a field that names one of its own bits twice
        if not overlap_ok and (set(pos) & used_any):
            continue
        name = "f%d" % k
        if rng.random() < 0.3:
            cand = rng.choice(NAME_POOL)
            plain = cand.replace("r#", "")
            if cand not in names and not any(plain == n.replace("r#", "") for n in names) and not (debug and cand.startswith("r#") and False):
                name = cand
        names.add(name)
        f = _make_field(kind, name, ranges, access, array, helpers, rng, k)
        if rng.random() < 0.45:
            f["doc"] = "field %s of %s" % (name.replace("r#", ""), cid)
            f["doc_form"] = rng.choice(DOC_FORMS)
        fields.append(f)
        used_any |= set(pos)
        if "w" in access:
            used_w |= set(pos)
    if not fields:
        fields.append(C.bool_field("f0", 0))
    # views and aliases over what exists
    if rng.random() < 0.5:
        scal = [f for f in fields if not f["array"] and len(f["ranges"]) == 1]
        if scal and rng.random() < 0.5:
            f0 = rng.choice(scal)
            lo, hi = f0["ranges"][0]
            w = hi - lo + 1
            acc = rng.choice(["r", "r", "rw"])
            if f0["kind"] == "uint" and w in C.NATIVE:
                fields.append(C.sint_field("alias_s", [(lo, hi)], access=acc))
            elif f0["kind"] != "uint":
                fields.append(C.uint_field("alias_u", [(lo, hi)], access=acc))
            elif w >= 2:
                h = rng.randint(1, w - 1)
                parts = [C.uint_field("part_hi", [(lo + h, hi)], access=rng.choice(["r", "rw"])), C.uint_field("part_lo", [(lo, lo + h - 1)], access=rng.choice(["r", "rw"]))]
                rng.shuffle(parts)
                where = rng.choice(["before", "after"])
                if where == "before":
                    idx = fields.index(f0)
                    fields[idx:idx] = parts
                else:
                    fields += parts
        else:
            arrs = [f for f in fields if f["array"] and len(f["ranges"]) == 1 and f["kind"] == "uint"]
            if arrs:
                a = rng.choice(arrs)
                i = rng.randrange(a["array"]["count"])
                lo = a["ranges"][0][0] + i * a["array"]["stride"]
                fields.append(C.uint_field("elem_view", [(lo, lo + a["width"] - 1)], access=rng.choice(["r", "rw"])))
    if debug:
        for f in fields:
            if f["access"] in ("w", ""):
                f["access"] = "r"
    if rng.random() < 0.3:
        rng.shuffle(fields)
    # default: structured
    default = None
    dch = rng.random()
    if dch < 0.65:
        ones = (1 << base) - 1
        mode = rng.choice(["zero", "ones", "random", "perfield", "holes"])
        if mode == "zero":
            val = 0
        elif mode == "ones":
            val = ones
        elif mode == "random":
            val = rng.getrandbits(base)
        else:
            val = rng.getrandbits(base) if mode == "holes" else 0
            for f in fields:
                k = f["array"]["count"] if f["array"] else 1
                for i in range(k):
                    bits = [p for lo, hi in f["ranges"] for p in range(lo + i * (f["array"]["stride"] if f["array"] else 0), hi + i * (f["array"]["stride"] if f["array"] else 0) + 1)]
                    fill = rng.choice([0, 0, 1, 2])
                    for p in bits:
                        if fill == 0 or (mode == "holes"):
                            val &= ~(1 << p)
                        elif fill == 1:
                            val |= (1 << p)
                        elif rng.random() < 0.5:
                            val |= (1 << p)
            val &= ones
        default = C.default_spec(val, form=rng.choice(["lit", "lit", "const"]), syntax=rng.choice("==:"), radix=rng.choice(["hex", "dec"]))
    case = C.bitfield_case(cid, family, base, fields, default=default, debug=debug, helpers=list(helpers.values()), seeded=seeded, name="Reg",
                           doc=("register %s" % cid) if rng.random() < 0.5 else None, tags=["wild"])
    if rng.random() < 0.15:
        case["extra_attrs"] = rng.choice(STRUCT_ATTRS)
    return case


def wild_cases(tier, seed):
    rng0 = random.Random(20261005)
    rng = random.Random(seed * 7368787 + 41)
    out = []
    n = 0
    bases_core = [8, 16, 32, 64, 128, 9, 24, 33, 65, 100, 127]
    reps = 2 if tier == "quick" else 10
    for base in bases_core:
        for _ in range(reps):
            out.append(wild_register("mw_%04d" % n, base, rng0, seeded=False))
            n += 1
    for _ in range(50 if tier == "quick" else 500):
        base = rng.choice([8, 16, 32, 64, 128] * 3 + [b for b in C.all_arb_widths() if b >= 4])
        out.append(wild_register("mw_%04d" % n, base, rng, seeded=True))
        n += 1
    return out
