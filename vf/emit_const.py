"""Emitter for the C15 harness: per case a `const fn probe` over the generated const API, const items that
force rustc's const evaluator to run it, and a run() that evaluates the same probe at run time."""
import random

from . import catalog, emit, rules
from .emit import BB, base_from_u128, base_to_u128, conv_in, rstr


def enc_out(case, f, x):
    k = f["kind"]
    w = f["width"]
    if k == "bool":
        return "(%s as u128)" % x
    if k == "uint":
        return base_to_u128(w, x)
    if k == "sint":
        return "(%s(%s) as i128 as u128)" % (BB, x)
    if k == "enum":
        return "(%s_ord(%s) as u128)" % (f["tyref"].lower(), x)
    if k == "optenum":
        return "(match %s { Ok(v) => %s_ord(v) as u128, Err(e) => vrt::cst::ERR_TAG | (%s(e) as u128) })" % (x, f["tyref"].lower(), BB)
    if k == "nested":
        return base_to_u128(w, "%s.raw_value()" % x)
    raise ValueError(k)


def slot_value(f, rng, mode):
    """a valid glue argument for one element of field f"""
    if f["kind"] == "bool":
        return {0: 0, 1: 1}.get(mode, rng.randint(0, 1))
    if f["kind"] in ("enum", "optenum"):
        n = f["_nvar"]
        return {0: 0, 1: n - 1}.get(mode, rng.randrange(n))
    w = f["width"]
    m = (1 << w) - 1
    return {0: 0, 1: m, 2: 1 << (w - 1)}.get(mode, rng.getrandbits(w))


def probed_indices(f):
    if not f["array"]:
        return [None]
    K = f["array"]["count"]
    return sorted({0, 1, K - 1})


def const_module(case, nk, seed):
    cid = case["id"]
    rng = random.Random("%s/%d" % (cid, seed))
    T = case["name"]
    n = case["base"]
    L = []
    sec = emit.Section(cid)

    def mark(name, s0):
        sec.parts.append((name, s0 + 1, len(L)))
    L.append("pub mod c_%s {" % cid)
    L.append("    #![allow(dead_code, non_camel_case_types, deprecated, unused_imports, unused_variables, unreachable_patterns, clippy::all)]")
    L.append("    use arbitrary_int::*;")
    L.append("    use bitbybit::{bitenum, bitfield};")
    L.append("    use vrt::cst::COp;")
    L.append("    use vrt::{CaseDesc, FieldDesc, Kind, TypeTable};")
    s0 = len(L)
    L += ["    " + l for l in emit.helpers_block(case)]
    mark("helpers", s0)
    s0 = len(L)
    L += ["    " + l for l in emit.bitfield_decl(case)]
    mark("decl", s0)
    s0 = len(L)
    enums = {h["name"]: h for h in case.get("helpers", []) if h["kind"] == "enum"}
    for e in enums.values():
        L += ["    " + l.replace("fn ", "const fn ", 1) if l.startswith("fn ") else "    " + l for l in emit.enum_helpers_glue(e)]
        L.append("    " + emit.table_static(e))
    for f in case["fields"]:
        if f["kind"] in ("enum", "optenum"):
            f["_nvar"] = len(catalog.enum_present(enums[f["tyref"]]))
    has_builder = rules.builder_expected(case)
    decl = "\n".join(emit.bitfield_decl(case))
    L.append("    static FIELDS: [FieldDesc; %d] = [" % len(case["fields"]))
    for f in case["fields"]:
        L.append("        " + emit.field_desc_rs(case, f) + ",")
    L.append("    ];")
    L.append("    static DESC: CaseDesc = CaseDesc { id: %s, family: %s, decl: %s, base_width: %d, storage_width: %d, default: %s, fields: &FIELDS, has_builder: %s, debug: %s, tags: &[] };" % (
        rstr(cid), rstr(case["family"]), rstr(decl), n, case["storage"], "Some(%s)" % hex(case["default"]["value"]) if case["default"] else "None",
        "true" if has_builder else "false", "true" if case["debug"] else "false"))
    # operations
    ops = []      # (COp text, expression)
    slots = []    # field per slot
    ops.append(("COp::Raw", base_to_u128(n, "t.raw_value()")))
    ops.append(("COp::Zero", base_to_u128(n, "%s::ZERO.raw_value()" % T)))
    if case["default"]:
        ops.append(("COp::Default", base_to_u128(n, "%s::DEFAULT.raw_value()" % T)))
    for k, f in enumerate(case["fields"]):
        for i in probed_indices(f):
            if "r" in f["access"]:
                call = "t.%s(%s)" % (f["name"], "" if i is None else str(i))
                ops.append(("COp::Get(%d, %d)" % (k, i or 0), enc_out(case, f, call)))
            if "w" in f["access"]:
                slot = len(slots)
                slots.append(f)
                call = "t.%s(%s%s)" % (emit.method_name(f, "with_"), "" if i is None else "%d, " % i, conv_in(case, f, "v[%d]" % slot))
                ops.append(("COp::With(%d, %d, %d)" % (k, i or 0, slot), base_to_u128(n, "%s.raw_value()" % call)))
    if has_builder:
        first = len(slots)
        chain = "%s::builder()" % T
        for f in case["fields"]:
            if "w" not in f["access"]:
                continue
            if f["array"]:
                elems = []
                for i in range(f["array"]["count"]):
                    elems.append(conv_in(case, f, "v[%d]" % len(slots)))
                    slots.append(f)
                chain += ".%s([%s])" % (emit.method_name(f, "with_"), ", ".join(elems))
            else:
                chain += ".%s(%s)" % (emit.method_name(f, "with_"), conv_in(case, f, "v[%d]" % len(slots)))
                slots.append(f)
        chain += ".build()"
        ops.append(("COp::Build(%d)" % first, base_to_u128(n, "%s.raw_value()" % chain)))
    NV, M = len(slots), len(ops)
    L.append("    pub const NV: usize = %d;" % NV)
    L.append("    pub const M: usize = %d;" % M)
    L.append("    static OPS: [COp; M] = [%s];" % ", ".join(o for o, _ in ops))
    mark("glue", s0)
    s0 = len(L)
    L.append("    pub const fn probe(r: u128, v: &[u128; NV]) -> [u128; M] {")
    L.append("        let t = %s::new_with_raw_value(%s);" % (T, base_from_u128(n, "r")))
    L.append("        [")
    for _, e in ops:
        L.append("            %s," % e)
    L.append("        ]")
    L.append("    }")
    mark("probe", s0)
    s0 = len(L)
    full = (1 << n) - 1
    ins = []
    for k in range(nk):
        r = {0: 0, 1: full, 2: 0x5555555555555555555555555555555555 & full}.get(k, rng.getrandbits(n))
        vs = [slot_value(f, rng, k) for f in slots]
        ins.append((r, vs))
    L.append("    const IN: [(u128, [u128; NV]); %d] = [%s];" % (nk, ", ".join("(%s, [%s])" % (hex(r), ", ".join(hex(x) for x in vs)) for r, vs in ins)))
    L.append("    const CT: [[u128; M]; %d] = [%s];" % (nk, ", ".join("probe(IN[%d].0, &IN[%d].1)" % (k, k) for k in range(nk))))
    mark("const-items", s0)
    s0 = len(L)
    L.append("    pub fn run(rep: &mut vrt::cst::Report) {")
    L.append("        let inputs: Vec<(u128, &[u128])> = IN.iter().map(|(r, v)| (*r, &v[..])).collect();")
    L.append("        let ct: Vec<&[u128]> = CT.iter().map(|c| &c[..]).collect();")
    L.append("        vrt::cst::check(&DESC, &OPS, &inputs, &ct, &|r, v| { let mut a = [0u128; NV]; a.copy_from_slice(v); probe(r, &a).to_vec() }, rep);")
    L.append("    }")
    L.append("}")
    mark("glue", s0)
    for f in case["fields"]:
        f.pop("_nvar", None)
    return L, sec


def const_enum_module(case, nk, seed):
    cid = case["id"]
    e = case["enum"]
    rng = random.Random("%s/%d" % (cid, seed))
    name, low, n = e["name"], e["name"].lower(), e["bits"]
    present = catalog.enum_present(e)
    L = []
    sec = emit.Section(cid)
    L.append("pub mod c_%s {" % cid)
    L.append("    #![allow(dead_code, non_camel_case_types, unused_imports, unreachable_patterns, clippy::all)]")
    L.append("    use arbitrary_int::*;")
    L.append("    use bitbybit::{bitenum, bitfield};")
    L.append("    use vrt::EnumDesc;")
    s0 = len(L)
    L += ["    " + l for l in emit.enum_decl(e)]
    sec.parts.append(("decl", s0 + 1, len(L)))
    s0 = len(L)
    L += ["    " + l.replace("fn ", "const fn ", 1) if l.startswith("fn ") else "    " + l for l in emit.enum_helpers_glue(e)]
    L.append("    static DESC: EnumDesc = EnumDesc { id: %s, decl: %s, width: %d, exhaustive: %s, conditional: %s, discrs: &[%s], names: &[%s], tags: &[] };" % (
        rstr(cid), rstr("\n".join(emit.enum_decl(e))), n, "true" if e["exhaustive"] == "true" else "false", "true" if e["exhaustive"] == "conditional" else "false",
        ", ".join(hex(v["discr"]) for v in present), ", ".join(rstr(v["name"]) for v in present)))
    sec.parts.append(("glue", s0 + 1, len(L)))
    s0 = len(L)
    L.append("    pub const fn probe(x: u128, ord: u128) -> [u128; 2] {")
    if e["exhaustive"] == "true":
        first = "(%s_ord(%s::new_with_raw_value(%s)) as u128)" % (low, name, base_from_u128(n, "x"))
    else:
        first = "(match %s::new_with_raw_value(%s) { Ok(v) => %s_ord(v) as u128, Err(e) => vrt::cst::ERR_TAG | (%s(e) as u128) })" % (name, base_from_u128(n, "x"), low, BB)
    L.append("        [%s, %s]" % (first, base_to_u128(n, "%s_from_ord(ord).raw_value()" % low)))
    L.append("    }")
    sec.parts.append(("probe", s0 + 1, len(L)))
    s0 = len(L)
    space = 1 << n
    ins = []
    ds = [v["discr"] for v in present]
    for k in range(nk):
        x = {0: ds[0], 1: (ds[-1] + 1) % space, 2: space - 1, 3: 0}.get(k, rng.choice(ds) if rng.random() < 0.5 else rng.randrange(space))
        ins.append((x, rng.randrange(len(ds)) if k else len(ds) - 1))
    L.append("    const IN: [(u128, u128); %d] = [%s];" % (nk, ", ".join("(%s, %d)" % (hex(x), o) for x, o in ins)))
    L.append("    const CT: [[u128; 2]; %d] = [%s];" % (nk, ", ".join("probe(IN[%d].0, IN[%d].1)" % (k, k) for k in range(nk))))
    sec.parts.append(("const-items", s0 + 1, len(L)))
    s0 = len(L)
    L.append("    pub fn run(rep: &mut vrt::cst::Report) { vrt::cst::check_enum(&DESC, &IN, &CT, &|x, o| probe(x, o), rep); }")
    L.append("}")
    sec.parts.append(("glue", s0 + 1, len(L)))
    return L, sec


def shard_source(cases, nk=4, seed=0):
    L = ["// generated by /verif/vf/emit_const.py -- do not edit", "#![allow(clippy::all)]", ""]
    sections = []
    for c in cases:
        lines, sec = const_enum_module(c, nk, seed) if c["kind"] == "enum" else const_module(c, nk, seed)
        sections.append(sec.shift(len(L)))
        L += lines
        L.append("")
    L.append("pub fn register(r: &mut Vec<fn(&mut vrt::cst::Report)>) {")
    for c in cases:
        L.append("    r.push(c_%s::run);" % c["id"])
    L.append("}")
    return "\n".join(L) + "\n", sections


def const_cases(tier, seed):
    out = []
    for fam in ("mixed", "custom", "array", "nc", "bld", "dbgf", "enumf") + (("base",) if tier == "thorough" else ()):
        for c in catalog.family(fam, tier, seed):
            if c["kind"] == "bitfield":
                if rules.bitfield_verdict(c)[0] != rules.ACCEPT:
                    continue
                bad = "self-overlap" in c.get("tags", [])
                for f in c["fields"]:
                    pos = catalog.field_positions(f)
                    if "w" in f["access"] and len(set(pos)) != len(pos):
                        bad = True
                if bad:
                    continue
            out.append(c)
    return out
