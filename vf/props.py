"""Per-property check drivers."""
import hashlib
import json
import os
import sys
import time

from . import build, catalog, emit, rules
from .build import Inconclusive, log

VERIF = build.VERIF

RUNTIME = {
    # prop: (groups, rule for distinct_nontrivial, required shape substrings (coverage floor))
    "C01": (["single", "array", "mixed", "nc"],
            "(case, field, index) triples of readable contiguous fields for which the getter returned >=2 distinct results over the raw values tried, every result equalled the reference register, and flipping each outside bit (isolation twins) left the result unchanged",
            ["s8|", "s16|", "s32|", "s64|", "s128|", "s32arb|", "s128arb|", "|bool|", "|full|", "|top|", "w=S"]),
    "C02": (["single", "array", "mixed", "nc"],
            "(case, field, index) triples of writable contiguous fields for which a write over an old field value not in {0, v} was observed with the neighbouring bits both all-zero and all-one, in both with_ and set_ form, all agreeing with the reference register",
            ["s8|", "s16|", "s32|", "s64|", "s128|", "s32arb|", "s128arb|", "|bool|", "|full|", "|top|", "w=S"]),
    "C03": (["array", "nc", "custom", "mixed"],
            "array fields for which every element was written (both forms) while all other elements held distinct non-zero values with the result equal to the reference register, and >=3 distinct out-of-range indices were seen panicking in each of getter, with_ and set_",
            ["range[]gap", "range[]", "|bool|", "|sint|", "|enum|", "list[]", "arb|"]),
    "C04": (["nc", "custom", "mixed"],
            "(case, field, index) triples of range-list fields whose getter and setter agreed with the reference register (declaration-order gather/scatter) with every value bit written alone at 1 and alone at 0",
            ["|list", "list[]interleave", "|sint|", "w=nat", "w=arb", "arb|"]),
    "C05": (["single", "array", "nc", "mixed"],
            "(case, field, index) triples of iN fields read and written (incl. min, -1, max) over raw 0 / all-ones / random with storage equal to the reference register",
            ["|sint|", "s128", "arb|", "|list", "range[]"]),
    "C06": (["base", "mixed"],
            "bitfield types whose raw round trip held on >=2 distinct raw values and whose ZERO/DEFAULT/Default/new/size/align all matched the declaration",
            ["base u1 ", "base u127 ", "base u128 ", "base u65 ", "default=true", "default=false"]),
    "C07": (["enumf"],
            "bitenums for which a raw value with a variant and (unless all 2^N values are variants) one without were both converted, all conversions matching the discriminant table and raw_value() inverting them",
            ["|arb|exhaustive", "|native|exhaustive", "|arb|non-exhaustive", "|native|non-exhaustive", "conditional", "u64|", "u1|", "u9|", "u33|"]),
    "C08": (["custom", "array", "mixed"],
            "(case, field, index) triples of enum-, Option<enum>- and bitfield-typed fields read and written in agreement with the reference register and the enum's discriminant table",
            ["|enum|", "|optenum|", "|nested|", "w=nat", "|list", "range[]"]),
    "C11": (["single", "array", "nc", "custom", "mixed"],
            "bitfields over arbitrary-int bases for which all-ones was written into a field containing bit N-1 and the object was compared with new_with_raw_value(raw_value()) through every getter, with the storage never exceeding N bits",
            ["s8arb", "s16arb", "s32arb", "s64arb", "s128arb", "|top"]),
    "C12": (["mixed", "array", "nc", "single"],
            "bitfields whose histories visited >2 distinct states with every step equal to the reference register (last write wins per bit)",
            ["list", "[]", "|bool|"]),
    "C13": (["bld", "mixed"],
            "bitfields with a builder whose builder().with_*()...build() produced >=2 distinct results, each equal to default/zero with every writable field written (reference register) and to the same with_ calls on a plain object",
            ["[]", "list", "|sint|", "|enum|", "|nested|", "arb|"]),
    "C19": (["mixed", "dbgf"],
            "debug bitfields whose {:?} and {:#?} texts took >=2 distinct values, each equal to the text of a plain #[derive(Debug)] struct of the same name and fields filled from the reference register",
            ["|bool|", "|sint|", "|enum|", "|optenum|", "|nested|", "arb|"]),
}

RUNTIME["C16"] = (["single", "array", "nc", "enumf", "custom", "mixed", "base", "bld", "dbgf"],
                  "(group, case) pairs whose complete monitored workload (getters, with_/set_, array indices in and out of range, histories, builder, constants, Debug) produced identical observation digests under every build profile with no panic other than for an out-of-range array index",
                  ["w=S", "|full|", "|top|", "s128|", "s128arb|", "range[]", "list"])

# C16 (totality over every family) owns every part: a case whose documented use stops compiling is never dropped without a verdict
GLUE_OWNERS = {"glue-get": ("C01", "C04", "C05", "C08", "C19", "C16"), "glue-put": ("C02", "C04", "C05", "C08", "C16"), "glue-build": ("C13", "C16"), "glue-debug": ("C19", "C16"),
               "glue-consts": ("C06", "C16"), "glue-core": ("C06", "C16"), "glue-enum": ("C07", "C10", "C16")}
GLUE_WHAT = {"glue-get": "calling a getter and converting its result", "glue-put": "calling with_/set_ with a value of the field type", "glue-build": "the builder chain in declaration order",
             "glue-debug": "formatting with {:?}", "glue-consts": "ZERO / DEFAULT / Default::default() / new() / Copy / size_of", "glue-core": "new_with_raw_value / raw_value",
             "glue-enum": "new_with_raw_value with its documented result type (the enum itself when exhaustive, Result<enum, storage integer> otherwise) and raw_value"}

def decl_relevant(prop, c):
    """does property `prop` quantify over the layout of catalog case `c` (used when the declaration itself stops compiling)"""
    if c is None:
        return False
    if c.get("kind") != "bitfield":
        return prop in ("C07", "C16")
    if rules.bitfield_verdict(c)[0] != rules.ACCEPT:
        return False
    fs = c["fields"]
    rd = lambda f: "r" in (f.get("access") or "")
    wr = lambda f: "w" in (f.get("access") or "")
    lst = lambda f: len(f["ranges"]) > 1
    return {
        "C01": any(rd(f) and not lst(f) for f in fs),
        "C02": any(wr(f) for f in fs),
        "C03": any(f["array"] is not None for f in fs),
        "C04": any(lst(f) for f in fs),
        "C05": any(f["kind"] == "sint" for f in fs),
        "C06": True,
        "C08": any(f["kind"] in ("enum", "optenum", "nested") for f in fs),
        "C11": c["base"] != c["storage"],
        "C12": any(wr(f) for f in fs),
        "C13": c.get("family") == "bld",
        "C16": True,
        "C19": bool(c.get("debug")),
    }.get(prop, False)


TECH = "reference-model monitor at the API boundary of the generated code"


def tier_profiles(tier):
    return ["dbg", "rel"] if tier == "quick" else ["dbg", "rel", "opt3chk", "opt0nochk"]


def load_known():
    p = os.path.join(VERIF, "known_findings.json")
    if not os.path.exists(p):
        return dict(findings=[], fixed=[])
    with open(p) as f:
        return json.load(f)


def known_match(prop, signature):
    """an open finding with exactly this signature"""
    for k in load_known().get("findings", []):
        if k.get("status") == "open" and k.get("property") == prop and k.get("signature") == signature:
            return k
    return None


def write_replay(prop, record):
    d = os.path.join(build.OUT, "replay")
    os.makedirs(d, exist_ok=True)
    h = hashlib.sha256(json.dumps(record, sort_keys=True).encode()).hexdigest()[:12]
    p = os.path.join(d, "%s-%s.json" % (prop, h))
    with open(p, "w") as f:
        json.dump(record, f, indent=1)
    return p


def write_evidence(prop, tier, seed, coverage, wall, violations, assumptions, level="exploration"):
    ev = dict(property_id=prop, tier=tier, seed=seed, level=level, coverage=coverage, assumptions=assumptions, wall_s=round(wall, 2), violations=violations)
    p = os.path.join(build.EVIDENCE, "%s.json" % prop)
    os.makedirs(os.path.dirname(p), exist_ok=True)
    tmp = p + ".tmp%d" % os.getpid()
    with open(tmp, "w") as f:
        json.dump(ev, f, indent=1)
    os.replace(tmp, p)
    return p


class Result:
    def __init__(self, prop):
        self.prop = prop
        self.violations = []   # (signature or None, replay record)
        self.notes = []

    def finish(self):
        """prints verdict lines, returns exit code"""
        n_new = 0
        seen_known = set()
        for sig, rec in self.violations:
            k = known_match(self.prop, sig) if sig else None
            if k is not None:
                key = json.dumps(sig, sort_keys=True)
                if key not in seen_known:
                    seen_known.add(key)
                    print("KNOWN-FINDING: property=%s %s" % (self.prop, k.get("what", "")))
                continue
            n_new += 1
            if n_new <= 10:
                path = write_replay(self.prop, rec)
                print("VIOLATION property=%s replay=%s" % (self.prop, path))
                log("  ", json.dumps({k: rec.get(k) for k in ("kind", "what", "case", "field_decl", "op", "raw", "value", "observed", "expected", "profile", "program") if k in rec})[:900])
        sys.stdout.flush()
        return 1 if n_new else 0


def merge_counts(dst, src):
    for k, v in src.items():
        dst[k] = dst.get(k, 0) + v


def run_groups(prop, tier, seed, groups, extra_args=()):
    """builds the groups under every profile of the tier and runs the monitors of `prop`; returns (reports, dropped)"""
    profiles = tier_profiles(tier)
    dropped = []
    with build.Lock():
        build.snapshot()
        ws = build.Workspace(tier, seed)
        ws.generate(groups)
        for prof in profiles:
            dropped += ws.build_resilient(groups, prof)
    reports = []
    for prof in profiles:
        for g in groups:
            r = ws.run(g, prof, prop, extra=extra_args)
            if r.get("worker_threads_crashed"):
                raise Inconclusive("a worker thread of the runner crashed (%s/%s)" % (g, prof))
            reports.append(r)
    return reports, dropped


def runtime_check(prop, tier, seed, groups=None, extra_args=()):
    t0 = time.time()
    groups_all, rule, floor = RUNTIME[prop]
    groups = groups or groups_all
    groups = [g for g in groups if g in catalog.FAMILIES]
    res = Result(prop)
    profiles = tier_profiles(tier)
    reports = []
    dropped_all = []
    with build.Lock():
        build.snapshot()
        ws = build.Workspace(tier, seed)
        ws.generate(groups)
        for prof in profiles:
            dropped_all += ws.build_resilient(groups, prof)
    probe_info = None
    if prop == "C11":
        # probe declarations (rule-invalid, above bit N-1 but inside the storage): monitored only if the macro accepts them
        with build.Lock():
            ws.generate(["probe11"])
            pd = []
            for prof in profiles:
                pd = ws.build_resilient(["probe11"], prof)
        n_probe = len(catalog.family("probe11", tier, seed))
        rejected = len({d["case"] for d in pd})
        probe_info = dict(generated=n_probe, rejected_at_compile_time=rejected, accepted_and_monitored=n_probe - rejected)
        if n_probe - rejected > 0:
            groups = groups + ["probe11"]
    for prof in profiles:
        for g in groups:
            reports.append(ws.run(g, prof, prop, extra=extra_args))
    cov = summarize(prop, reports, rule, dropped_all)
    if probe_info:
        cov["probe_declarations_above_bit_N-1"] = probe_info
    # cross-profile digests (same workload, same seed): must be identical
    by_group = {}
    for r in reports:
        by_group.setdefault(r["group"], {})[r["profile"]] = r["stats"]["digest"]
    for g, d in by_group.items():
        if len(set(d.values())) > 1:
            res.notes.append("digests differ across profiles in group %s: %s" % (g, d))
            cov["profile_digest_mismatch_groups"] = cov.get("profile_digest_mismatch_groups", []) + [g]
    if prop == "C16":
        # per-case digests: localise profile dependence
        per = {}
        for r in reports:
            for cid, dg, n in r["stats"].get("case_digests", []):
                per.setdefault((r["group"], cid), {})[r["profile"]] = (dg, n)
        same = 0
        for (g, cid), d in sorted(per.items()):
            if len(d) == len(profiles) and len(set(d.values())) == 1 and list(d.values())[0][1] > 0:
                same += 1
            elif len(set(d.values())) > 1:
                rec = dict(kind="profile-dependence", what="the same seeded workload produced different observations under different build profiles",
                           case=cid, group=g, tier=tier, seed=seed, digests={k: v[0] for k, v in d.items()}, profile=",".join(sorted(d)), replay_kind="digest",
                           observed=str({k: v[0] for k, v in d.items()}), expected="identical digests")
                cc = next((c for c in catalog.family(g, tier, seed) if c["id"] == cid), None) if g in catalog.FAMILIES else None
                sig = dict(category="unexpected-panic", shape=rules.D4_SHAPE) if (cc is not None and rules.list_exceeds_storage(cc)) else None
                res.violations.append((sig, rec))
        cov["distinct_nontrivial"] = same
        cov["cases_compared_across_profiles"] = len(per)
        if tier == "thorough":
            # third evaluator: Miri on a reduced boundary workload; must agree with the native dbg run of the same workload
            with build.Lock():
                ws.generate(["mirif"])
                ws.build_resilient(["mirif"], "dbg")
            native = ws.run("mirif", "dbg", "C16", extra=["--miri-workload"])
            nat = {cid: (dg, n) for cid, dg, n in native["stats"]["case_digests"]}
            mreps = ws.miri_run("mirif", "C16")
            mir = {}
            m_ops = 0
            for r in mreps:
                if "miri_error" in r:
                    rec = dict(kind="miri-error", what="Miri reported undefined behaviour / an unsupported operation while interpreting the generated code and glue", case="slice %d" % r["slice"],
                               observed=r["miri_error"][-1500:], expected="clean interpretation", tier=tier, seed=seed, group="mirif", replay_kind="miri", profile="miri")
                    res.violations.append((None, rec))
                    continue
                m_ops += r["stats"]["evaluations"]
                for cid, dg, n in r["stats"]["case_digests"]:
                    mir[cid] = (dg, n)
                for v in r["stats"]["violations"]:
                    res.violations.append((None, dict(v, tier=tier, seed=seed, group="mirif", replay_kind="runtime")))
            agree = 0
            for cid, d in sorted(mir.items()):
                if nat.get(cid) == d:
                    agree += 1
                else:
                    rec = dict(kind="profile-dependence", what="Miri and the native debug build observed different results for the same workload", case=cid, group="mirif", tier=tier, seed=seed,
                               observed="miri %s vs native %s" % (d, nat.get(cid)), expected="identical digests", profile="miri,dbg", replay_kind="miri")
                    res.violations.append((None, rec))
            cov["miri"] = dict(cases=len(mir), operations=m_ops, cases_agreeing_with_native_dbg=agree, native_cases=len(nat), slices=len(mreps))
            if len(mir) < max(1, len(nat) // 2):
                raise Inconclusive("Miri interpreted only %d of %d sampled cases" % (len(mir), len(nat)))
    by_id = {}
    for g in groups:
        for c in catalog.family(g, tier, seed):
            by_id[c["id"]] = c
    for r in reports:
        for v in r["stats"]["violations"]:
            rec = dict(v, tier=tier, seed=seed, group=r["group"], replay_kind="runtime")
            sig = None
            c = by_id.get(v.get("case"))
            if prop == "C16" and c is not None and rules.list_exceeds_storage(c) and v.get("kind") == "unexpected-panic":
                sig = dict(category="unexpected-panic", shape=rules.D4_SHAPE)
            res.violations.append((sig, rec))
        if r["stats"]["violation_count"] > len(r["stats"]["violations"]):
            cov["violations_not_listed"] = cov.get("violations_not_listed", 0) + r["stats"]["violation_count"] - len(r["stats"]["violations"])
        if r.get("worker_threads_crashed"):
            raise Inconclusive("a worker thread of the runner crashed (%s/%s)" % (r["group"], r["profile"]))
    # a generated case whose *usage glue* no longer compiles: the documented API of a rule-valid declaration is unusable.
    # (errors inside the declaration itself belong to C09/C10; these are errors in the one-line calls of the generated methods)
    seen_glue = set()
    for dct in dropped_all:
        if prop in GLUE_OWNERS.get(dct.get("part"), ()) and (dct["case"], dct["part"]) not in seen_glue:
            seen_glue.add((dct["case"], dct["part"]))
            c = by_id.get(dct["case"], {})
            rec = dict(kind="api-unusable", what="the documented use of a generated operation no longer compiles (%s)" % GLUE_WHAT.get(dct["part"], dct["part"]), case=dct["case"],
                       decl=emit.decl_text(c)[:3000] if c else "", observed="%s: %s" % (dct.get("code"), dct.get("message", "")[:300]), expected="compiles", tier=tier, seed=seed,
                       group=next((g for g in groups if any(x["id"] == dct["case"] for x in catalog.family(g, tier, seed))), groups[0]), profile=profiles[0], replay_kind="runtime-build")
            res.violations.append((None, rec))
    # a rule-valid generated declaration that itself no longer compiles: the property cannot hold for a layout whose subject does not exist.
    # (C09 / C10 judge acceptance as such; here the monitor reports that a layout it is quantified over was taken away from it)
    seen_decl = set()
    for dct in dropped_all:
        c = by_id.get(dct["case"])
        if dct.get("part") == "decl" and dct["case"] not in seen_decl and decl_relevant(prop, c):
            seen_decl.add(dct["case"])
            rec = dict(kind="declaration-rejected", what="a generated declaration that follows the documented rules (and that this property quantifies over) no longer compiles", case=dct["case"],
                       decl=emit.decl_text(c)[:3000], observed="%s: %s" % (dct.get("code"), dct.get("message", "")[:300]), expected="compiles", tier=tier, seed=seed,
                       group=next((g for g in groups if any(x["id"] == dct["case"] for x in catalog.family(g, tier, seed))), groups[0]), profile=profiles[0], replay_kind="runtime-build")
            res.violations.append((None, rec))
    # coverage floor
    missing = [s for s in floor if not any(s in k for k in cov["shape_classes"])]
    total_viol = sum(r["stats"]["violation_count"] for r in reports) + sum(1 for _, rec in res.violations if rec.get("replay_kind") in ("digest", "miri", "runtime-build"))
    write_evidence(prop, tier, seed, cov, time.time() - t0, total_viol, ASSUME_RUNTIME)
    if total_viol == 0:
        if cov["evaluations"] == 0 or cov["distinct_nontrivial"] < 2:
            raise Inconclusive("the monitor observed nothing non-trivial (evaluations=%d, distinct_nontrivial=%d)" % (cov["evaluations"], cov["distinct_nontrivial"]))
        if missing:
            raise Inconclusive("coverage floor missed, shape classes never observed: %s (dropped cases: %d)" % (missing, len(dropped_all)))
    return res


ASSUME_RUNTIME = [
    "the generated glue (one line per operation: conversions to/from u128, transmute_copy peek of the storage integer) is faithful; it is exercised by the mutant self-tests and under Miri in the thorough tier",
    "the catalog record and the emitted declaration text agree (both come from the same generator record)",
    "universality is not claimed: the relation was checked on the layouts and inputs listed here, under the listed build profiles",
]


def summarize(prop, reports, rule, dropped):
    cov = dict(evaluations=0, distinct_nontrivial=0, rule=rule, samples=[], cases=0, fields=0, profiles={}, shape_classes={},
               exhaustive_subspaces={}, counters={}, expected_panics=0, unexpected_panics=0, exhaustive=False)
    per_group_nontrivial = {}
    for r in reports:
        s = r["stats"]
        cov["evaluations"] += s["evaluations"]
        p = cov["profiles"].setdefault(r["profile"], dict(ops=0, expected_panics=0, unexpected_panics=0, model_mismatches=0, digests={}, wall_s=0))
        p["ops"] += s["evaluations"]
        p["expected_panics"] += s["expected_panics"]
        p["unexpected_panics"] += s["unexpected_panics"]
        p["model_mismatches"] += s["model_mismatches"]
        p["digests"][r["group"]] = s["digest"]
        p["wall_s"] = round(p["wall_s"] + r["wall_s"], 2)
        cov["expected_panics"] += s["expected_panics"]
        cov["unexpected_panics"] += s["unexpected_panics"]
        # distinct cases: the same (case, field, index) is visited once per profile -> count the minimum over profiles
        g = per_group_nontrivial.setdefault(r["group"], {})
        g[r["profile"]] = s["nontrivial"]
        if r["profile"] == reports[0]["profile"]:
            cov["cases"] += s["cases"]
            cov["fields"] += s["fields"]
            merge_counts(cov["shape_classes"], s["shapes"])
            merge_counts(cov["exhaustive_subspaces"], s["exhaustive_spaces"])
            merge_counts(cov["counters"], s["counters"])
            for k in ("field_bits_total", "field_bits_toggled", "outside_bits_total", "outside_bits_toggled", "states_seen"):
                cov[k] = cov.get(k, 0) + s[k]
            for smp in s["samples"]:
                if len(cov["samples"]) < 8:
                    cov["samples"].append(dict(smp, profile=r["profile"], group=r["group"]))
    cov["distinct_nontrivial"] = sum(min(v.values()) for v in per_group_nontrivial.values())
    if cov.get("field_bits_total"):
        cov["bit_toggle_coverage"] = dict(field_bits=round(cov["field_bits_toggled"] / cov["field_bits_total"], 4),
                                          outside_bits=round(cov["outside_bits_toggled"] / max(1, cov["outside_bits_total"]), 4))
    cov["dropped_cases_that_did_not_compile"] = dropped[:20]
    cov["repo_fingerprint"] = build.repo_fingerprint()
    return cov
