"""Rule oracle: an independent implementation of the *documented* acceptance rules (README and the
statements of C09 / C10 / C14 / C17).  Three-valued: 'accept', 'reject', 'unspecified'."""
from . import catalog

ACCEPT, REJECT, UNSPEC = "accept", "reject", "unspecified"


def base_ok(case):
    text = case.get("base_text")
    if text is None:
        n = case["base"]
        return 1 <= n <= 128
    if text in ("u8", "u16", "u32", "u64", "u128"):
        return True
    if text.startswith("u") and text[1:].isdigit():
        n = int(text[1:])
        return 1 <= n <= 127
    return False


def field_problems(case, f):
    """list of rule names the field violates"""
    probs = []
    base = case["base"]
    ranges = f["ranges"]
    for lo, hi in ranges:
        if lo > hi:
            probs.append("lo>hi")
    if probs:
        return probs
    sel = sum(hi - lo + 1 for lo, hi in ranges)
    tyw = f.get("tywidth", f["width"])
    if f["kind"] == "bool":
        if sel != 1 or len(ranges) != 1:
            probs.append("bool-not-one-bit")
    elif sel != tyw:
        probs.append("type-width-mismatch")
    a = f["array"]
    if a is not None:
        if a["count"] < 2:
            probs.append("array-count<2")
        if len(ranges) == 1:
            if a["stride"] < sel:
                probs.append("stride<width")
        elif not a["explicit"]:
            probs.append("list-array-without-stride")
    elif f.get("stride_on_scalar") is not None:
        probs.append("stride-on-scalar")
    top = max(hi for _, hi in ranges)
    if a is not None and a["count"] >= 1:
        top += (a["count"] - 1) * a["stride"]
    if top >= base:
        probs.append("beyond-base-width")
    return probs


def bitfield_verdict(case):
    if case.get("unspecified"):
        return UNSPEC, [case["unspecified"]]
    if not base_ok(case):
        return REJECT, ["unsupported-base"]
    probs = []
    if case.get("debug") and any(f["array"] is not None or "r" not in f["access"] for f in case["fields"]):
        # C19's statement: `debug` applies to bitfields whose fields are all readable and not arrays; "others do not compile with debug" (documented behaviour, never judged)
        return UNSPEC, ["debug-with-array-or-unreadable-field"]
    for f in case["fields"]:
        if f["array"] is not None and f["array"]["stride"] == 0 and len(f["ranges"]) > 1:
            # the statement constrains the stride of contiguous elements only (stride >= width)
            return UNSPEC, ["stride-0-on-list-array"]
        probs += field_problems(case, f)
    return (REJECT, probs) if probs else (ACCEPT, [])


def writable_positions(f):
    out = []
    if "w" not in f["access"]:
        return out
    n = f["array"]["count"] if f["array"] else 1
    for i in range(n):
        out += catalog.field_positions(f, i)
    return out


def builder_expected(case):
    """builder() is offered iff no bit is writable through two fields / elements / ranges and
    (a default is declared or the writable fields cover every bit of the base)"""
    seen = set()
    for f in case["fields"]:
        for p in writable_positions(f):
            if p in seen:
                return False
            seen.add(p)
    if case["default"] is not None:
        return True
    return len(seen) == case["base"]


def builder_reason(case):
    seen = {}
    for f in case["fields"]:
        for p in writable_positions(f):
            if p in seen:
                return "bit %d writable through %s and %s" % (p, seen[p], f["name"])
            seen[p] = f["name"]
    if case["default"] is not None:
        return "no doubly-writable bit, default declared"
    if len(seen) == case["base"]:
        return "no doubly-writable bit, writable fields cover all %d bits" % case["base"]
    return "no default and only %d of %d bits writable" % (len(seen), case["base"])


def api_surface(f):
    a = f["access"]
    return dict(getter=("r" in a), with_=("w" in a), set_=("w" in a), builder_step=("w" in a))


def enum_verdict(enum):
    """C10: literal discriminants below 2^N, exhaustive flag consistent with the count, cfg only under
    conditional, more than 2^N variants only under conditional, N in 1..=64"""
    if enum.get("unspecified"):
        return UNSPEC, [enum["unspecified"]]
    probs = []
    if enum.get("no_storage"):
        return REJECT, ["unsupported-storage"]
    bits_text = enum.get("bits_text")
    n = enum["bits"]
    if bits_text is not None:
        if not (bits_text.startswith("u") and bits_text[1:].isdigit() and 1 <= int(bits_text[1:]) <= 64):
            return REJECT, ["unsupported-storage"]
    elif not (1 <= n <= 64):
        return REJECT, ["unsupported-storage"]
    space = 1 << n
    vs = enum["variants"]
    exh = enum["exhaustive"]
    count = len(vs)
    for v in vs:
        if v.get("discr_text") is not None and v.get("discr") is None:
            probs.append("non-literal-or-missing-discriminant")
        elif v["discr"] is None:
            probs.append("non-literal-or-missing-discriminant")
        elif v["discr"] >= space:
            probs.append("discriminant>=2^N")
    if any(v["cfg"] is not None for v in vs) and exh != "conditional":
        probs.append("cfg-without-conditional")
    if exh != "conditional":
        if count > space:
            probs.append("too-many-variants")
        elif exh == "true" and count != space:
            probs.append("claims-exhaustive-but-is-not")
        elif exh in ("false", None) and count == space:
            probs.append("is-exhaustive-but-not-declared")
    return (REJECT, probs) if probs else (ACCEPT, [])


def list_exceeds_storage(case):
    """a field whose range list selects more bits than the storage integer has (only possible when the list names
    bits twice). Signature of the known finding D4."""
    if case.get("kind") != "bitfield":
        return False
    for f in case["fields"]:
        if len(f["ranges"]) > 1 and sum(hi - lo + 1 for lo, hi in f["ranges"]) > case["storage"]:
            return True
    return False


D4_SHAPE = "range list selecting more bits than the storage integer has"
