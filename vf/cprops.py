"""Compile-outcome properties: C09, C10, C14, C17, C18 (and the screening part of C15)."""
import os
import time

from . import build, catalog, compile_mon as cm, emit, props, rejects, rules
from .build import Inconclusive, log
from .compile_mon import Unit

BITFIELD_FAMILIES = ["single", "array", "nc", "custom", "mixed", "base", "bld", "dbgf"]

ASSUME_COMPILE = [
    "rustc's JSON diagnostics are attributed to a generated case by walking each span's macro-expansion chain back to a line of the batch file",
    "the rule oracle (vf/rules.py) implements the documented rules; shapes it marks 'unspecified' are neither generated nor judged",
    "error messages are never matched, only accept/reject, the error code class and the location",
]


def decl_unit(case, docs=False, extra_lines=(), uid=None, meta=None):
    """module with helpers + declaration (+ extra parts: list of (name, lines))"""
    L = (["/// generated case %s" % case["id"]] if docs else []) + ["pub mod c_%s {" % case["id"], "    #![allow(dead_code, non_camel_case_types, deprecated, unused_imports, unused_variables)]",
         "    use arbitrary_int::*;", "    use bitbybit::{bitenum, bitfield};", "    use crate::vrt;"]
    if case.get("bare_scope"):
        # nothing of arbitrary_int is imported by name: only what the user wrote through a path is available
        L.remove("    use arbitrary_int::*;")
    parts = []
    if case.get("prelude_lines"):
        L += ["    " + l for l in case["prelude_lines"]]
    s0 = len(L)
    L += ["    " + l for l in emit.helpers_block(case, docs=docs)]
    if len(L) > s0:
        parts.append(("helpers", s0 + 1, len(L)))
    s0 = len(L)
    if case["kind"] == "enum":
        L += ["    " + l for l in emit.enum_decl(case["enum"], docs=docs)]
    else:
        L += ["    " + l for l in emit.bitfield_decl(case, docs=docs)]
    parts.append(("decl", s0 + 1, len(L)))
    if extra_lines:
        s0 = len(L)
        for h in case.get("helpers", []):
            if h["kind"] == "enum":
                L += ["    " + l for l in emit.enum_helpers_glue(h)]
        if len(L) > s0:
            parts.append(("helpers", s0 + 1, len(L)))
    for name, lines in extra_lines:
        s0 = len(L)
        L += ["    " + l for l in lines]
        parts.append((name, s0 + 1, len(L)))
    L.append("}")
    return Unit(uid or case["id"], L, parts, meta=dict(case=case, **(meta or {})))


def pair_unit(uid, pos, neg, neg_first):
    """both twins in one unit (one macro process sees them one after the other): parts 'pos' and 'neg'"""
    L = ["pub mod c_%s {" % uid]
    parts = []
    for name, case in ((("neg", neg), ("pos", pos)) if neg_first else (("pos", pos), ("neg", neg))):
        L += ["    pub mod %s {" % name, "        #![allow(dead_code, non_camel_case_types, deprecated, unused_imports, unused_variables)]",
              "        use arbitrary_int::*;", "        use bitbybit::{bitenum, bitfield};"]
        L += ["        " + l for l in emit.helpers_block(case)]
        s0 = len(L)
        L += ["        " + l for l in emit.bitfield_decl(case)]
        parts.append((name, s0 + 1, len(L)))
        L.append("    }")
    L.append("}")
    return Unit(uid, L, parts, meta=dict(case=neg))


def unit_text(u):
    return "\n".join(u.lines)


def single_probe_program(u, probe):
    """the unit reduced to its declaration (+helpers) and one probe function"""
    first = min([a for n, a, b in u.parts if n not in ("helpers", "decl")] or [len(u.lines)])
    keep = list(u.lines[:first - 1])
    for n, a, b in u.parts:
        if n == probe:
            keep += u.lines[a - 1:b]
    # enum ordinal helpers live in a late "helpers" part
    for n, a, b in u.parts:
        if n == "helpers" and a >= first:
            keep += u.lines[a - 1:b]
    return "\n".join(keep + ["}"])


def all_bitfield_cases(tier, seed):
    out = []
    for fam in BITFIELD_FAMILIES:
        out += catalog.family(fam, tier, seed)
    return out


def field_kind_class(case):
    ks = sorted({("list-" if len(f["ranges"]) > 1 else "") + f["kind"] + ("[]" if f["array"] else "") for f in case["fields"]})
    return "+".join(ks[:3])


# ------------------------------------------------------------------------------------------------
# C09
# ------------------------------------------------------------------------------------------------

def check_c09(tier, seed):
    t0 = time.time()
    res = props.Result("C09")
    macro_profiles = ["macrodev"] if tier == "quick" else ["macrodev", "macrorel"]
    tw = rejects.twins(tier, seed)
    cases = all_bitfield_cases(tier, seed)
    accept_units = []
    for c in cases:
        v, why = rules.bitfield_verdict(c)
        if v == rules.ACCEPT:
            accept_units.append(decl_unit(c))
    for t in tw:
        accept_units.append(decl_unit(t["pos"], meta=dict(twin=t)))
    reject_units = [decl_unit(t["neg"], meta=dict(twin=t)) for t in tw]
    pair_units = [pair_unit("pair_%04d" % k, t["pos"], t["neg"], neg_first=(k % 2 == 1)) for k, t in enumerate(tw)]
    for u, t in zip(pair_units, tw):
        u.meta["twin"] = t
    cov = dict(evaluations=0, distinct_nontrivial=0, rule="", samples=[], programs_must_accept=len(accept_units), programs_must_reject=len(reject_units),
               accepted_ok=0, rejected_ok=0, rules_exercised={}, macro_profiles=macro_profiles, rustc={}, exhaustive=False, error_codes={})
    combos = set()
    with build.Lock():
        build.snapshot()
        for mp in macro_profiles:
            art = cm.artifacts(mp)
            ea, sa = cm.outcomes(accept_units, art, "c09-acc-" + mp)
            er, sr = cm.outcomes(reject_units, art, "c09-rej-" + mp)
            # both twins inside one compilation unit, alternating order: acceptance must not depend on what the macro saw before
            ep, sp = cm.outcomes(pair_units, art, "c09-pair-" + mp, iterate=False, batch_size=30)
            cov["rustc"][mp] = dict(accept=sa, reject=sr, pairs=sp)
            cov["evaluations"] += len(accept_units) + len(reject_units) + len(pair_units)
            cov["pair_units"] = len(pair_units)
            for u in pair_units:
                t = u.meta["twin"]
                parts_failed = {pn for pn, code, msg in ep.get(u.uid, [])}
                if "pos" in parts_failed and not [e for e in ea.get("rp_" + t["neg"]["id"][3:], []) if e[0] != "helpers"]:
                    msg = [m for pn, c_, m in ep[u.uid] if pn == "pos"][0]
                    rec = dict(kind="rule-valid-rejected", what="a rule-valid declaration is rejected when it is compiled in the same crate as its rule-invalid twin", case=u.uid, program=unit_text(u),
                               observed="rejected: " + msg[:200], expected="accepted", macro_profile=mp, replay_kind="compile-pair", expect="pos-accept")
                    res.violations.append((dict(category="order-dependent-acceptance", shape=t["shape"]), rec))
                if "neg" not in parts_failed and er.get("rn_" + t["neg"]["id"][3:]):
                    rec = dict(kind="rule-invalid-accepted", what="a declaration that breaks rule '%s' compiles when its rule-valid twin is compiled in the same crate %s it" % (t["rule"], "after" if u.lines[1].strip().startswith("pub mod neg") else "before"),
                               case=u.uid, rule=t["rule"], shape=t["shape"], program=unit_text(u), observed="accepted", expected="compile error located at the declaration", macro_profile=mp,
                               replay_kind="compile-pair", expect="neg-reject")
                    res.violations.append((dict(category="order-dependent-acceptance", shape=t["shape"]), rec))
            for u in accept_units:
                errs = [e for e in ea.get(u.uid, []) if e[0] != "helpers"]
                c = u.meta["case"]
                if errs:
                    rec = dict(kind="rule-valid-rejected", what="a declaration that follows every documented rule does not compile", case=c["id"], family=c["family"],
                               program=unit_text(u), errors=[dict(part=p, code=k, message=m) for p, k, m in errs[:3]], observed="rejected: " + errs[0][2][:200],
                               expected="accepted", macro_profile=mp, replay_kind="compile", expect="accept")
                    shape = rules.D4_SHAPE if rules.list_exceeds_storage(c) else field_kind_class(c) + " on " + rejects.base_class(c["base"])
                    res.violations.append((dict(category="rule-valid-rejected", shape=shape), rec))
                else:
                    cov["accepted_ok"] += 1
            for u in reject_units:
                t = u.meta["twin"]
                errs = er.get(u.uid, [])
                for e in errs[:1]:
                    cov["error_codes"][str(e[1])] = cov["error_codes"].get(str(e[1]), 0) + 1
                if not errs:
                    rec = dict(kind="rule-invalid-accepted", what="a declaration that breaks rule '%s' compiles" % t["rule"], case=t["neg"]["id"], rule=t["rule"], shape=t["shape"],
                               program=unit_text(u), positive_twin=emit.decl_text(t["pos"]), observed="accepted", expected="compile error located at the declaration",
                               macro_profile=mp, replay_kind="compile", expect="reject")
                    res.violations.append((dict(category="rule-invalid-accepted", shape=t["shape"]), rec))
                else:
                    cov["rejected_ok"] += 1
                    cov["rules_exercised"][t["rule"]] = cov["rules_exercised"].get(t["rule"], 0) + 1
                    pos_ok = not [e for e in ea.get("rp_" + t["neg"]["id"][3:], []) if e[0] != "helpers"]
                    if pos_ok:
                        combos.add((t["rule"], rejects.base_class(t["neg"]["base"]), t["kind"]))
    cov["distinct_nontrivial"] = len(combos)
    cov["rule"] = ("programs = generated declarations compiled by rustc with the real macro; distinct_nontrivial = distinct (rule, base class, field kind) combinations for which "
                   "the rule-valid twin was accepted and its one-edit rule-invalid twin was rejected with an error located inside the declaration")
    smp = []
    for t in tw[:: max(1, len(tw) // 6)][:6]:
        smp.append(dict(rule=t["rule"], shape=t["shape"], rejected_twin=emit.decl_text(t["neg"]), accepted_twin=emit.decl_text(t["pos"])))
    cov["samples"] = smp
    cov["repo_fingerprint"] = build.repo_fingerprint()
    props.write_evidence("C09", tier, seed, cov, time.time() - t0, len(res.violations), ASSUME_COMPILE)
    if not res.violations and (cov["rejected_ok"] == 0 or cov["accepted_ok"] == 0):
        raise Inconclusive("nothing observed")
    return res


# ------------------------------------------------------------------------------------------------
# C14: builder existence and type-state
# ------------------------------------------------------------------------------------------------

def zero_arg(case, f):
    x = emit.conv_in(case, f, "0u128")
    if f["array"]:
        return "[%s; %d]" % (x, f["array"]["count"])
    return x


def overlap_class(case):
    """why no builder is expected (stable shape names for findings)"""
    seen = {}
    for fi, f in enumerate(case["fields"]):
        if "w" not in f["access"]:
            continue
        n = f["array"]["count"] if f["array"] else 1
        for i in range(n):
            for p in catalog.field_positions(f, i):
                if p in seen:
                    (fj, j) = seen[p]
                    if fj != fi:
                        return "two writable fields overlap"
                    if j != i:
                        return "elements of one %sarray overlap" % ("range-list " if len(f["ranges"]) > 1 else "")
                    return "non-array range list naming a bit twice" if not f["array"] else "array element range list naming a bit twice"
                seen[p] = (fi, i)
    if case["default"] is None and len(seen) != case["base"]:
        return "no default and writable fields do not cover the base"
    return None


def chain_steps(case):
    return [(f, ".%s(%s)" % (emit.method_name(f, "with_"), zero_arg(case, f))) for f in case["fields"] if "w" in f["access"]]


def c14_units(case):
    """returns (must_compile_unit, must_fail_unit, probe table)"""
    T = case["name"]
    expected = rules.builder_expected(case)
    ok_parts, bad_parts, table = [], [], {}
    steps = chain_steps(case)
    if expected:
        ok_parts.append(("presence", ["pub fn p_presence() { let _ = %s::builder; }" % T]))
        ok_parts.append(("full-chain", ["pub fn p_full() -> %s { %s::builder()%s.build() }" % (T, T, "".join(s for _, s in steps))]))
        k = 0
        n = len(steps)
        for cut in range(n):   # proper prefixes
            name = "prefix-%d" % cut
            bad_parts.append((name, ["pub fn p_prefix_%d() { let _ = %s::builder()%s.build(); }" % (cut, T, "".join(s for _, s in steps[:cut]))]))
            table[name] = "build() after only %d of %d writable fields" % (cut, n)
        if n <= 12:
            for rm in range(n):
                if rm == n - 1:
                    continue   # identical to the longest proper prefix
                name = "skip-%d" % rm
                ss = steps[:rm] + steps[rm + 1:]
                bad_parts.append((name, ["pub fn p_skip_%d() { let _ = %s::builder()%s.build(); }" % (rm, T, "".join(s for _, s in ss))]))
                table[name] = "chain with the step for field %s left out" % steps[rm][0]["name"]
            for sw in range(n - 1):
                name = "swap-%d" % sw
                ss = steps[:sw] + [steps[sw + 1], steps[sw]] + steps[sw + 2:]
                bad_parts.append((name, ["pub fn p_swap_%d() { let _ = %s::builder()%s.build(); }" % (sw, T, "".join(s for _, s in ss))]))
                table[name] = "chain with the steps for %s and %s transposed" % (steps[sw][0]["name"], steps[sw + 1][0]["name"])
        # a step for a field that is not writable must not exist
        for f in case["fields"]:
            if "w" not in f["access"]:
                name = "ro-step-%s" % f["name"].replace("r#", "")
                bad_parts.append((name, ["pub fn p_ro_%s() { let _ = %s::builder().%s(%s); }" % (f["name"].replace("r#", ""), T, emit.method_name(f, "with_"), zero_arg(case, f))]))
                table[name] = "builder step for the non-writable field %s" % f["name"]
                break
    else:
        bad_parts.append(("absent", ["pub fn p_absent() { let _ = %s::builder; }" % T]))
        table["absent"] = "builder() although " + (overlap_class(case) or "?")
    ok = decl_unit(case, extra_lines=ok_parts, uid=case["id"] + "/ok") if ok_parts else None
    bad = decl_unit(case, extra_lines=bad_parts, uid=case["id"] + "/bad") if bad_parts else None
    return ok, bad, table


def _check_c14(tier, seed, macro_profile="macrodev"):
    t0 = time.time()
    res = props.Result("C14")
    cases = []
    for fam in ("mixed", "bld", "nc", "array", "custom", "dbgf", "base"):
        cases += [c for c in catalog.family(fam, tier, seed) if rules.bitfield_verdict(c)[0] == rules.ACCEPT]
    cases += c14_extra_cases()
    ok_units, bad_units, tables = [], [], {}
    n_probes = 0
    for c in cases:
        ok, bad, table = c14_units(c)
        tables[c["id"]] = table
        if ok:
            ok_units.append(ok)
            n_probes += len(ok.parts) - 1
        if bad:
            bad_units.append(bad)
            n_probes += len([p for p in bad.parts if p[0] not in ("helpers", "decl")])
    cov = dict(evaluations=n_probes, distinct_nontrivial=0, rule="", samples=[], cases=len(cases), builder_expected=sum(1 for c in cases if rules.builder_expected(c)),
               builder_not_expected=sum(1 for c in cases if not rules.builder_expected(c)), reasons_without_builder={}, must_fail_probes=0, must_fail_failed=0,
               must_compile_probes=0, must_compile_ok=0, error_codes={}, exhaustive=False)
    nontrivial = set()
    with build.Lock():
        build.snapshot()
        art = cm.artifacts(macro_profile)
        eo, so = cm.outcomes(ok_units, art, "c14-ok", iterate=False)
        eb, sb = cm.outcomes(bad_units, art, "c14-bad", iterate=False)
    cov["rustc"] = dict(ok=so, bad=sb)
    by_id = {c["id"]: c for c in cases}
    for u in ok_units:
        c = u.meta["case"]
        errs = eo.get(u.uid, [])
        probe_names = [p[0] for p in u.parts if p[0] not in ("helpers", "decl")]
        cov["must_compile_probes"] += len(probe_names)
        failed = {}
        for part, code, msg in errs:
            failed.setdefault(part, (code, msg))
        if "decl" in failed or "helpers" in failed:
            cov.setdefault("declarations_that_did_not_compile", []).append(c["id"])
            continue
        for pn in probe_names:
            if pn in failed:
                code, msg = failed[pn]
                what = "builder() is missing" if pn == "presence" else "the complete builder chain in declaration order does not compile"
                rec = dict(kind="builder-missing", what=what + " although the rules expect a builder (%s)" % rules.builder_reason(c), case=c["id"], program=single_probe_program(u, pn),
                           probe=pn, observed="%s: %s" % (code, msg[:200]), expected="compiles", replay_kind="compile", expect="accept")
                res.violations.append((dict(category="builder-missing", shape=field_kind_class(c)), rec))
            else:
                cov["must_compile_ok"] += 1
    for u in bad_units:
        c = u.meta["case"]
        errs = eb.get(u.uid, [])
        probe_names = [p[0] for p in u.parts if p[0] not in ("helpers", "decl")]
        cov["must_fail_probes"] += len(probe_names)
        failed = {}
        for part, code, msg in errs:
            failed.setdefault(part, (code, msg))
            cov["error_codes"][str(code)] = cov["error_codes"].get(str(code), 0) + 1
        if "decl" in failed or "helpers" in failed:
            continue
        all_failed = True
        for pn in probe_names:
            if pn in failed and failed[pn][0] in ("E0599", "E0425", "E0433"):
                cov["must_fail_failed"] += 1
                continue
            all_failed = False
            desc = tables[c["id"]].get(pn, pn)
            if pn == "absent":
                oc = overlap_class(c)
                cov["reasons_without_builder"][oc] = cov["reasons_without_builder"].get(oc, 0)
                rec = dict(kind="builder-offered-unsound", what="builder() is offered although " + str(oc), case=c["id"], program=single_probe_program(u, pn), probe=pn,
                           observed="`let _ = %s::builder;` compiles" % c["name"] if pn not in failed else "unexpected error class %s" % (failed[pn],), expected="error[E0599]: no function named builder",
                           replay_kind="compile", expect="reject")
                res.violations.append((dict(category="builder-offered-unsound", shape=oc), rec))
            else:
                rec = dict(kind="build-reachable-early", what="an incomplete or reordered builder chain type-checks: " + desc, case=c["id"], program=single_probe_program(u, pn), probe=pn,
                           observed="compiles" if pn not in failed else "unexpected error class %s" % (failed[pn],), expected="error[E0599]", replay_kind="compile", expect="reject")
                res.violations.append((dict(category="build-reachable-early", shape=desc.split(" ")[0]), rec))
        if all_failed and probe_names:
            if "absent" in probe_names:
                oc = overlap_class(c)
                cov["reasons_without_builder"][oc] = cov["reasons_without_builder"].get(oc, 0) + 1
            nontrivial.add(c["id"])
    # a case is non-trivial when its must-compile probes compiled and its must-fail probes failed
    ok_ids = {u.meta["case"]["id"] for u in ok_units if not eo.get(u.uid)}
    has_ok = {u.meta["case"]["id"] for u in ok_units}
    cov["distinct_nontrivial"] = len([i for i in nontrivial if (i in ok_ids or i not in has_ok)])
    cov["rule"] = ("probe functions over rule-valid declarations compiled by rustc; a case counts when every probe that must compile (builder presence, the full chain) compiled and every probe that must not "
                   "(builder() where the rules forbid it; each proper prefix + build(); each chain with one step left out; each adjacent transposition; a step for a non-writable field) failed with E0599")
    for c in cases[:: max(1, len(cases) // 5)][:5]:
        ok, bad, table = c14_units(c)
        cov["samples"].append(dict(case=c["id"], builder_expected=rules.builder_expected(c), reason=rules.builder_reason(c), declaration=emit.decl_text(c)[:1500],
                                   must_fail_probes=[l for n_, a, b in (bad.parts if bad else []) if n_ not in ("helpers", "decl") for l in bad.lines[a - 1:b]][:6]))
    cov["repo_fingerprint"] = build.repo_fingerprint()
    props.write_evidence("C14", tier, seed, cov, time.time() - t0, len(res.violations), ASSUME_COMPILE)
    if not res.violations and (cov["must_fail_failed"] == 0 or cov["must_compile_ok"] == 0):
        raise Inconclusive("nothing observed")
    return res


def c14_extra_cases():
    """overlap shapes that must always be present (self-overlapping lists, overlapping elements, overlapping fields, gaps)"""
    from .catalog import arr, bitfield_case, bool_field, default_spec, uint_field
    out = []

    def add(cid, base, fields, default=True):
        out.append(bitfield_case("cx_" + cid, "c14", base, fields, default=default_spec(0) if default else None, name="Reg"))
    add("self1", 16, [uint_field("a", [(0, 3), (2, 5)])])
    add("self2", 32, [uint_field("a", [(8, 15), (8, 15)])])
    add("self3", 64, [uint_field("a", [(0, 0), (5, 9), (0, 0)])])
    add("self4", 24, [uint_field("a", [(20, 23), (23, 23)])])
    add("self5", 128, [uint_field("a", [(0, 63), (63, 126)])])
    add("self6", 16, [uint_field("b", [(8, 9)]), uint_field("a", [(0, 3), (3, 6)])])
    add("selfarr", 32, [uint_field("a", [(0, 1), (1, 2)], array=arr(2, 8))])
    add("elemov1", 16, [uint_field("a", [(0, 1), (3, 3)], array=arr(2, 1))])
    add("elemov2", 32, [uint_field("a", [(0, 0), (4, 4)], array=arr(3, 4))])
    add("fieldov1", 16, [uint_field("a", [(0, 7)]), uint_field("b", [(7, 14)])])
    add("fieldov2", 16, [uint_field("a", [(0, 3)], array=arr(2, 4)), bool_field("b", 7)])
    add("fieldov3", 16, [uint_field("a", [(0, 3), (8, 11)]), uint_field("b", [(10, 13)])])
    add("elemov3", 32, [uint_field("a", [(0, 1), (8, 9)], array=arr(3, 4))])                       # elements 0 and 2 share bits, neighbours do not
    add("elemov4", 64, [uint_field("a", [(0, 0), (12, 12)], array=arr(5, 4))])                     # elements i and i+3 share a bit
    add("elemov5", 32, [bool_field("pad", 31), uint_field("a", [(0, 1), (8, 9)], array=arr(3, 4))])
    # more declared fields than the storage has bits (read-only fields overlapping the writable ones)
    add("many8", 8, [bool_field("r%d" % k, k, access="r") for k in range(8)] + [uint_field("cmd", [(0, 3)], access="w"), uint_field("arg", [(4, 7)], access="w")])
    add("many16", 16, [bool_field("r%d" % k, k, access="r") for k in range(16)] + [uint_field("lo", [(0, 7)], access="rw"), uint_field("hi", [(8, 15)], access="w")], default=False)
    add("many8b", 8, [uint_field("w0", [(0, 3)], access="w")] + [bool_field("r%d" % k, k, access="r") for k in range(8)] + [uint_field("w1", [(4, 7)], access="w")])
    add("ro_ov", 16, [uint_field("a", [(0, 7)]), uint_field("b", [(4, 11)], access="r")])          # overlap with a read-only field is fine
    add("gap_nodef", 16, [uint_field("a", [(0, 7)])], default=False)                               # incomplete, no default
    add("gap_ro_nodef", 16, [uint_field("a", [(0, 7)]), uint_field("b", [(8, 15)], access="r")], default=False)
    add("full_nodef", 16, [uint_field("a", [(0, 7)]), uint_field("b", [(8, 15)], access="w")], default=False)
    add("full_arb_nodef", 24, [uint_field("a", [(0, 11)]), uint_field("b", [(12, 23)])], default=False)
    add("almost_arb_nodef", 24, [uint_field("a", [(0, 11)]), uint_field("b", [(12, 22)])], default=False)
    add("zero_writable", 16, [uint_field("a", [(0, 7)], access="r")])
    # read-only fields that name a bit twice (or whose elements overlap) take nothing away from the builder: nothing is writable twice
    add("ro_self1", 16, [uint_field("view", [(0, 3), (2, 5)], access="r"), uint_field("a", [(0, 7)])])
    add("ro_self2", 16, [uint_field("a", [(0, 7)]), uint_field("b", [(8, 15)], access="w"), uint_field("view", [(4, 7), (4, 11)], access="r")], default=False)
    add("ro_selfarr", 32, [uint_field("view", [(0, 1), (3, 3)], array=arr(3, 1), access="r"), uint_field("a", [(0, 15)])])
    add("none_self", 16, [uint_field("view", [(0, 3), (3, 6)], access=""), bool_field("f", 9)])
    add("zero_writable_nodef", 16, [uint_field("a", [(0, 7)], access="r")], default=False)
    return out


# ------------------------------------------------------------------------------------------------
# C17: access specifiers decide the API surface
# ------------------------------------------------------------------------------------------------

def c17_units(case):
    T = case["name"]
    ok_parts, bad_parts = [], []
    has_builder = rules.builder_expected(case)
    steps = chain_steps(case) if has_builder else []
    for k, f in enumerate(case["fields"]):
        api = rules.api_surface(f)
        nm = f["name"].replace("r#", "")
        idx = "0, " if f["array"] else ""
        arg = emit.conv_in(case, f, "0u128")
        probes = [
            ("getter", api["getter"], "pub fn p_get_%d(s: &%s) { let _ = s.%s(%s); }" % (k, T, f["name"], "0" if f["array"] else "")),
            ("with", api["with_"], "pub fn p_with_%d(s: &%s) { let _ = s.with_%s(%s%s); }" % (k, T, nm, idx, arg)),
            ("set", api["set_"], "pub fn p_set_%d(s: &mut %s) { s.set_%s(%s%s); }" % (k, T, nm, idx, arg)),
        ]
        if has_builder:
            # the builder offers its steps in declaration order of the writable fields: the step of field k follows the steps of the writable fields before it
            before = "".join(st for ff, st in steps if case["fields"].index(ff) < k)
            probes.append(("bstep", api["builder_step"], "pub fn p_bstep_%d() { let _ = %s::builder()%s.%s(%s); }" % (k, T, before, emit.method_name(f, "with_"), zero_arg(case, f))))
        for what, present, line in probes:
            name = "%s:%d" % (what, k)
            (ok_parts if present else bad_parts).append((name, [line]))
    ok = decl_unit(case, extra_lines=ok_parts, uid=case["id"] + "/ok") if ok_parts else None
    bad = decl_unit(case, extra_lines=bad_parts, uid=case["id"] + "/bad") if bad_parts else None
    return ok, bad


def field_shape(f):
    return ("list-" if len(f["ranges"]) > 1 else "") + f["kind"] + ("[]" if f["array"] else "")


def _check_c17(tier, seed, macro_profile="macrodev"):
    t0 = time.time()
    res = props.Result("C17")
    cases = []
    for fam in ("mixed", "single", "nc", "custom", "bld", "dbgf"):
        for c in catalog.family(fam, tier, seed):
            if rules.bitfield_verdict(c)[0] != rules.ACCEPT:
                continue
            if fam == "single" and all(f["access"] == "rw" for f in c["fields"]):
                continue   # thousands of identical rw probes add nothing
            cases.append(c)
    cases += c17_extra_cases()
    ok_units, bad_units = [], []
    for c in cases:
        ok, bad = c17_units(c)
        if ok:
            ok_units.append(ok)
        if bad:
            bad_units.append(bad)
    with build.Lock():
        build.snapshot()
        art = cm.artifacts(macro_profile)
        eo, so = cm.outcomes(ok_units, art, "c17-ok", iterate=False)
        eb, sb = cm.outcomes(bad_units, art, "c17-bad", iterate=False)
    cov = dict(evaluations=0, distinct_nontrivial=0, rule="", samples=[], cases=len(cases), present_probes=0, present_ok=0, absent_probes=0, absent_ok=0,
               combos={}, error_codes={}, rustc=dict(ok=so, bad=sb), exhaustive=False)
    combos_ok = {}
    for units, errors, must_compile in ((ok_units, eo, True), (bad_units, eb, False)):
        for u in units:
            c = u.meta["case"]
            failed = {}
            for part, code, msg in errors.get(u.uid, []):
                failed.setdefault(part, (code, msg))
                if not must_compile:
                    cov["error_codes"][str(code)] = cov["error_codes"].get(str(code), 0) + 1
            if "decl" in failed or "helpers" in failed:
                continue
            for pn, a, b in u.parts:
                if pn in ("helpers", "decl"):
                    continue
                what, k = pn.split(":")
                f = c["fields"][int(k)]
                combo = "%s/%s/%s" % (field_shape(f), f["access"] or "none", what)
                cov["evaluations"] += 1
                if must_compile:
                    cov["present_probes"] += 1
                    if pn in failed:
                        rec = dict(kind="api-missing", what="field with access '%s' lacks its %s" % (f["access"], what), case=c["id"], field_decl=emit.field_attr(f) + " " + f["name"] + ": " + emit.field_type(f),
                                   program=single_probe_program(u, pn), probe=pn, observed="%s: %s" % failed[pn], expected="compiles", replay_kind="compile", expect="accept")
                        res.violations.append((dict(category="api-missing", shape=combo), rec))
                    else:
                        cov["present_ok"] += 1
                        combos_ok[combo] = combos_ok.get(combo, 0) + 1
                else:
                    cov["absent_probes"] += 1
                    if pn in failed and failed[pn][0] == "E0599":
                        cov["absent_ok"] += 1
                        combos_ok[combo + "/absent"] = combos_ok.get(combo + "/absent", 0) + 1
                    else:
                        rec = dict(kind="api-leak", what="field with access '%s' offers a %s" % (f["access"] or "none", what), case=c["id"], field_decl=emit.field_attr(f) + " " + f["name"] + ": " + emit.field_type(f),
                                   program=single_probe_program(u, pn), probe=pn, observed="compiles" if pn not in failed else "unexpected error %s" % (failed[pn],), expected="error[E0599]: no method", replay_kind="compile", expect="reject")
                        res.violations.append((dict(category="api-leak", shape=combo), rec))
    cov["combos"] = combos_ok
    cov["distinct_nontrivial"] = len(combos_ok)
    cov["rule"] = ("one probe function per (field, method) over rule-valid declarations: getter / with_ / set_ / builder step (when the rules expect a builder; reached through the steps of the writable fields declared before it) must compile exactly when the access specifier grants them and must fail with E0599 otherwise; "
                   "distinct_nontrivial = distinct (field shape, access, method, present|absent) combinations observed as required")
    for c in cases[:: max(1, len(cases) // 4)][:4]:
        ok, bad = c17_units(c)
        cov["samples"].append(dict(case=c["id"], declaration=emit.decl_text(c)[:1200],
                                   must_compile=[l.strip() for n_, a, b in (ok.parts if ok else []) if ":" in n_ for l in ok.lines[a - 1:b]][:4],
                                   must_fail=[l.strip() for n_, a, b in (bad.parts if bad else []) if ":" in n_ for l in bad.lines[a - 1:b]][:4]))
    cov["repo_fingerprint"] = build.repo_fingerprint()
    props.write_evidence("C17", tier, seed, cov, time.time() - t0, len(res.violations), ASSUME_COMPILE)
    if not res.violations and (cov["absent_ok"] == 0 or cov["present_ok"] == 0):
        raise Inconclusive("nothing observed")
    return res


def c17_extra_cases():
    """every field kind x every access specifier"""
    from .catalog import (arr, bitfield_case, bool_field, default_spec, enum_field, nested_def, nested_field, sint_field, std_enum, uint_field)
    out = []
    ex = std_enum("Ex", 2, True)
    en = std_enum("En", 3, False)
    inner = nested_def("In", 4)
    for acc in ("r", "w", "rw", ""):
        fields = [
            uint_field("sc", [(0, 3)], access=acc), bool_field("bo", 4, access=acc), sint_field("si", [(8, 15)], access=acc),
            uint_field("ar", [(16, 17)], access=acc, array=arr(3, 3)), bool_field("ba", 26, access=acc, array=arr(2, None, 1)),
            uint_field("li", [(30, 31), (28, 28)], access=acc), uint_field("la", [(32, 32), (34, 34)], access=acc, array=arr(2, 1)),
            enum_field("en", [(36, 37)], ex, access=acc), enum_field("op", [(38, 40)], en, access=acc), enum_field("ea", [(41, 42)], ex, access=acc, array=arr(2, None, 2)),
            nested_field("ne", [(48, 51)], inner, access=acc), uint_field("r#type", [(52, 55)], access=acc),
        ]
        for base in (64, 100):
            out.append(bitfield_case("ax_%s_%d" % (acc or "none", base), "c17", base, [dict(f) for f in fields], helpers=[ex, en, inner], default=default_spec(0), name="Reg"))
        # identifier shapes: leading underscore, keyword + underscore
        out.append(bitfield_case("an_%s_names" % (acc or "none"), "c17", 16, [uint_field("_reserved", [(0, 3)], access=acc), bool_field("_f", 4, access=acc), uint_field("type_", [(5, 7)], access=acc),
                                                                               uint_field("__", [(8, 9)], access=acc), uint_field("_arr", [(10, 10)], access=acc, array=arr(3, None, 1))], name="Reg"))
        # the code-generation special cases: a field as wide as the storage, top-bit fields, one-bit bases
        for b in (8, 16, 32, 64, 128):
            out.append(bitfield_case("af_%s_u%d" % (acc or "none", b), "c17", b, [uint_field("all", [(0, b - 1)], access=acc)], name="Reg"))
            out.append(bitfield_case("as_%s_i%d" % (acc or "none", b), "c17", b, [sint_field("all", [(0, b - 1)], access=acc)], name="Reg"))
            out.append(bitfield_case("at_%s_u%d" % (acc or "none", b), "c17", b, [bool_field("top", b - 1, access=acc), uint_field("rest", [(0, b - 2)], access=acc)], name="Reg"))
        for b in (1, 7, 24, 65, 127):
            f = uint_field("all", [(0, b - 1)], access=acc) if b > 1 else bool_field("all", 0, access=acc)
            out.append(bitfield_case("af_%s_u%d" % (acc or "none", b), "c17", b, [f], name="Reg"))
        if acc in ("w", ""):
            # `debug` with a field that has no getter: does not compile on a correct tree (then the probes are skipped);
            # if it ever compiles, the unreadable field must still not have a getter
            out.append(bitfield_case("ad_%s" % (acc or "none"), "c17", 32, [uint_field("a", [(0, 7)]), uint_field("key", [(8, 15)], access=acc), bool_field("flag", 16, access=acc),
                                                                             enum_field("mode", [(17, 18)], ex, access=acc)], helpers=[ex], debug=True, name="Reg", tags=["debug-with-unreadable-field"]))
        full_e = std_enum("Ex", 8, True)
        # more fields than a machine word has bits: access of field i must not leak into field i +- 32 / 64
        order = {"r": ("w", "", "rw", "r"), "w": ("r", "rw", "", "w"), "rw": ("", "r", "w", "rw"), "": ("rw", "w", "r", "")}[acc]
        out.append(bitfield_case("am_%s_34" % (acc or "none"), "c17", 64, [bool_field("f%d" % k, k, access=(acc if k in (0, 33) else order[k % 4])) for k in range(34)], name="Reg"))
        out.append(bitfield_case("am_%s_70" % (acc or "none"), "c17", 128, [bool_field("f%d" % k, k, access=(acc if k % 32 == 1 else order[(k // 32 + k) % 4])) for k in range(70)], name="Reg"))
        # exact twins: the same bits and type under different access
        out.append(bitfield_case("aw_%s" % (acc or "none"), "c17", 32, [uint_field("ctrl", [(0, 7)], access="rw"), uint_field("twin", [(0, 7)], access=acc), uint_field("w2", [(0, 7)], access=order[0]),
                                                                        bool_field("b", 9, access=order[1]), bool_field("b_twin", 9, access=acc)], name="Reg"))
        out.append(bitfield_case("ae_%s" % (acc or "none"), "c17", 8, [enum_field("all", [(0, 7)], full_e, access=acc)], helpers=[full_e], name="Reg"))
        inner16 = nested_def("In", 16)
        out.append(bitfield_case("an_%s" % (acc or "none"), "c17", 16, [nested_field("all", [(0, 15)], inner16, access=acc)], helpers=[inner16], name="Reg"))
    return out


# ------------------------------------------------------------------------------------------------
# C10: bitenum validation
# ------------------------------------------------------------------------------------------------

def enum_unit(uid, enum, meta=None):
    return decl_unit(dict(id=uid, kind="enum", enum=enum, helpers=[]), uid=uid, meta=meta)


def check_c10(tier, seed):
    t0 = time.time()
    res = props.Result("C10")
    tw = rejects.enum_twins(tier, seed)
    accept_units, reject_units = [], []
    for c in catalog.family("enumf", tier, seed):
        v, why = rules.enum_verdict(c["enum"])
        if v == rules.ACCEPT:
            accept_units.append(enum_unit(c["id"], c["enum"]))
        elif v == rules.REJECT:
            raise Inconclusive("generator produced a rule-invalid enum in the accept family: %s %s" % (c["id"], why))
    for k, t in enumerate(tw):
        accept_units.append(enum_unit("ep_%04d" % k, t["pos"], meta=dict(twin=t)))
        reject_units.append(enum_unit("en_%04d" % k, t["neg"], meta=dict(twin=t)))
    macro_profiles = ["macrodev"] if tier == "quick" else ["macrodev", "macrorel"]
    cov = dict(evaluations=0, distinct_nontrivial=0, rule="", samples=[], programs_must_accept=len(accept_units), programs_must_reject=len(reject_units), accepted_ok=0, rejected_ok=0,
               rules_exercised={}, error_codes={}, rustc={}, macro_profiles=macro_profiles, exhaustive=False)
    combos = set()
    with build.Lock():
        build.snapshot()
        for mp in macro_profiles:
            art = cm.artifacts(mp)
            ea, sa = cm.outcomes(accept_units, art, "c10-acc-" + mp)
            er, sr = cm.outcomes(reject_units, art, "c10-rej-" + mp)
            cov["rustc"][mp] = dict(accept=sa, reject=sr)
            cov["evaluations"] += len(accept_units) + len(reject_units)
            for u in accept_units:
                e = u.meta["case"]["enum"]
                errs = ea.get(u.uid, [])
                if errs:
                    shape = "u%d exhaustive=%s %d variants" % (e["bits"], e["exhaustive"], len(e["variants"]))
                    rec = dict(kind="rule-valid-enum-rejected", what="a bitenum that follows every rule does not compile", case=u.uid, program=unit_text(u), observed="rejected: %s %s" % (errs[0][1], errs[0][2][:200]),
                               expected="accepted", macro_profile=mp, replay_kind="compile", expect="accept")
                    res.violations.append((dict(category="rule-valid-enum-rejected", shape=shape), rec))
                else:
                    cov["accepted_ok"] += 1
            for u in reject_units:
                t = u.meta["twin"]
                errs = er.get(u.uid, [])
                for e_ in errs[:1]:
                    cov["error_codes"][str(e_[1])] = cov["error_codes"].get(str(e_[1]), 0) + 1
                if not errs:
                    rec = dict(kind="rule-invalid-enum-accepted", what="a bitenum that breaks rule '%s' compiles (%s)" % (t["rule"], t["shape"]), case=u.uid, rule=t["rule"], shape=t["shape"], program=unit_text(u),
                               observed="accepted", expected="compile error located at the declaration", macro_profile=mp, replay_kind="compile", expect="reject")
                    res.violations.append((dict(category="rule-invalid-enum-accepted", shape="%s / u%d" % (t["shape"], t["neg"]["bits"])), rec))
                else:
                    cov["rejected_ok"] += 1
                    cov["rules_exercised"][t["rule"]] = cov["rules_exercised"].get(t["rule"], 0) + 1
                    if not ea.get("ep_" + u.uid[3:]):
                        combos.add((t["rule"], t["shape"], t["neg"]["bits"]))
    # run-time part: every accepted enum of the family is swept (all 2^N values for N <= 16): exhaustive ones never fail, raw_value() never panics
    reports, dropped = props.run_groups("C10", tier, seed, ["enumf"])
    rt = props.summarize("C10", reports, "", dropped)
    cov["evaluations"] += rt["evaluations"]
    cov["runtime"] = dict(conversions=rt["evaluations"], enums=rt["cases"], enums_nontrivial=rt["distinct_nontrivial"], shape_classes=rt["shape_classes"], exhaustive_subspaces=rt["exhaustive_subspaces"],
                          profiles={k: dict(ops=v["ops"], unexpected_panics=v["unexpected_panics"], digests=v["digests"]) for k, v in rt["profiles"].items()})
    for r in reports:
        for v in r["stats"]["violations"]:
            res.violations.append((None, dict(v, tier=tier, seed=seed, group=r["group"], replay_kind="runtime")))
    # an accepted enum whose conversions no longer have the documented types (exhaustive -> Self, otherwise Result<Self, storage integer>)
    seen_glue = set()
    fam_by_id = {c["id"]: c for c in catalog.family("enumf", tier, seed)}
    for dct in dropped:
        if dct.get("part") == "glue-enum" and dct["case"] not in seen_glue:
            seen_glue.add(dct["case"])
            c = fam_by_id.get(dct["case"])
            rec = dict(kind="api-unusable", what="the documented use of a generated operation no longer compiles (%s)" % props.GLUE_WHAT["glue-enum"], case=dct["case"],
                       decl="\n".join(emit.enum_decl(c["enum"]))[:3000] if c else "", observed="%s: %s" % (dct.get("code"), dct.get("message", "")[:300]), expected="compiles", tier=tier, seed=seed,
                       group="enumf", profile=props.tier_profiles(tier)[0], replay_kind="runtime-build")
            res.violations.append((None, rec))
    cov["distinct_nontrivial"] = len(combos)
    cov["rule"] = ("programs = generated bitenum declarations compiled by rustc with the real macro, then every accepted enum of the family converted at run time under each profile; distinct_nontrivial = distinct "
                   "(rule, shape, N) combinations for which the rule-valid twin was accepted and its one-edit rule-invalid twin rejected with an error located inside the declaration")
    for t in tw[:: max(1, len(tw) // 5)][:5]:
        cov["samples"].append(dict(rule=t["rule"], shape=t["shape"], rejected_twin="\n".join(emit.enum_decl(t["neg"])), accepted_twin="\n".join(emit.enum_decl(t["pos"]))[:600]))
    cov["samples"] += rt["samples"][:2]
    cov["repo_fingerprint"] = build.repo_fingerprint()
    props.write_evidence("C10", tier, seed, cov, time.time() - t0, len(res.violations), ASSUME_COMPILE + props.ASSUME_RUNTIME[:1])
    if not res.violations and (cov["rejected_ok"] == 0 or cov["accepted_ok"] == 0 or rt["evaluations"] == 0):
        raise Inconclusive("nothing observed")
    return res


# ------------------------------------------------------------------------------------------------
# C18: no_std, no unsafe, documentation-clean
# ------------------------------------------------------------------------------------------------

import json as _json
import re as _re
import shutil as _shutil
import subprocess as _subprocess

EXPMON_DIR = os.path.join(build.VERIF, "harness", "expmon")
NO_STD_HEADER = ["#![no_std]", "#![deny(missing_docs)]", "#![deny(unsafe_code)]", "//! generated no_std crate: every item documented, nothing but bitbybit and arbitrary_int available", ""] + cm.VRT_STUB
ALLOWED_HEADS = {"core", "arbitrary_int", "Self", "self"}


def build_expmon():
    env = dict(build.ENV, CARGO_TARGET_DIR=os.path.join(build.TARGET, "expmon"))
    p = _subprocess.run(["cargo", "build", "--release", "--offline"], cwd=EXPMON_DIR, env=env, stdout=_subprocess.PIPE, stderr=_subprocess.PIPE, timeout=1800)
    if p.returncode != 0:
        raise Inconclusive("building expmon failed: " + p.stderr.decode(errors="replace")[-1000:])
    return os.path.join(build.TARGET, "expmon", "release", "expmon")


def idents_of(case):
    """identifiers the user wrote as types or constants in a declaration: the only path heads generated code may use besides core / arbitrary_int / Self"""
    out = set()
    if case["kind"] == "enum":
        e = case["enum"]
        out |= {e["name"], "u%d" % e["bits"]}
        return out
    out |= {case["name"], "Partial" + case["name"], "u%d" % case["base"], "DEFAULT_" + case["name"].upper(), "inner"}
    for f in case["fields"]:
        out |= set(_re.findall(r"[A-Za-z_][A-Za-z0-9_]*", f["ty"]))
    for h in case.get("helpers", []):
        out |= idents_of(dict(h, kind="enum", enum=h) if h["kind"] == "enum" else h)
    return out


def _check_c18(tier, seed, macro_profile="macrodev"):
    t0 = time.time()
    res = props.Result("C18")
    fams = ["mixed", "custom", "array", "nc", "enumf", "base", "bld", "dbgf"] + (["single"] if tier == "thorough" else [])
    units = []
    user_idents = set()
    for fam in fams:
        for c in catalog.family(fam, tier, seed):
            if c["kind"] == "bitfield" and rules.bitfield_verdict(c)[0] != rules.ACCEPT:
                continue
            if fam == "mixed" and "self-overlap" in c.get("tags", []):
                continue
            u = decl_unit(c, docs=True)
            units.append(u)
            user_idents |= idents_of(c)
    dump = os.path.join(cm.CM, "c18-dump")
    with build.Lock():
        build.snapshot()
        art = cm.artifacts(macro_profile)
        expmon = build_expmon()
        _shutil.rmtree(dump, ignore_errors=True)
        os.makedirs(dump)
        errors, st = cm.outcomes(units, art, "c18", header=NO_STD_HEADER, iterate=True, extra_env={"BITBYBIT_VERIF_DUMP_DIR": dump})
        p = _subprocess.run([expmon, dump], stdout=_subprocess.PIPE, stderr=_subprocess.PIPE, timeout=1800)
    if p.returncode != 0:
        raise Inconclusive("expmon failed: " + p.stderr.decode(errors="replace")[-800:])
    cov = dict(evaluations=len(units), distinct_nontrivial=0, rule="", samples=[], programs=len(units), clean_programs=0, diagnostics={}, expansions_scanned=0, expansions_with_unsafe=0,
               path_heads={}, macros_invoked={}, fns_scanned=0, impls_scanned=0, accessor_body_shapes=0, rustc=st, exhaustive=False, families=fams)
    by_uid = {u.uid: u for u in units}
    clean = set()
    for u in units:
        errs = errors.get(u.uid, [])
        if not errs:
            cov["clean_programs"] += 1
            clean.add(u.uid)
            continue
        part, code, msg = errs[0]
        cov["diagnostics"][str(code)] = cov["diagnostics"].get(str(code), 0) + 1
        cls = "missing-docs" if "missing documentation" in msg or code == "missing_docs" else ("unresolved-path" if code in ("E0433", "E0432", "E0412", "E0405", "E0425", "E0463") else "other-error")
        c = u.meta["case"]
        rec = dict(kind="regime-" + cls, what="generated code does not compile in a #![no_std] #![deny(missing_docs)] crate although every user item is documented", case=u.uid, family=c.get("family", c["kind"]),
                   program="\n".join(NO_STD_HEADER[:4]) + "\n" + unit_text(u), observed="%s: %s" % (code, msg[:300]), expected="no diagnostic", replay_kind="compile", expect="accept", header="no_std")
        res.violations.append((dict(category="regime-" + cls, shape=(msg[:60] if cls != "other-error" else str(code))), rec))
    # hostile scope: the same programs in modules where the unqualified prelude names a macro might be tempted to emit
    # (`Result`, `Ok`, `Err`, `Default`) are taken by user items -- a crate-wide `type Result<T>` alias or a glob-imported
    # enum with such variants are common in driver code. Generated code that "refers to nothing outside core and arbitrary_int"
    # must not care.
    hostile = ["#[allow(dead_code)] type Result<T> = ::core::result::Result<T, ()>;",
               "#[allow(dead_code)] enum ShadowedPreludeNames { Default, Ok, Err }",
               "#[allow(unused_imports)] use ShadowedPreludeNames::*;"]
    h_units = []
    for u in units:
        if u.uid not in clean:
            continue
        c = dict(u.meta["case"], prelude_lines=hostile)
        h_units.append(decl_unit(c, docs=True, uid=u.uid + "/hostile-scope"))
    with build.Lock():
        h_errors, h_st = cm.outcomes(h_units, art, "c18h", header=NO_STD_HEADER, iterate=True)
    cov["hostile_scope_programs"] = len(h_units)
    cov["hostile_scope_clean"] = len(h_units) - len(h_errors)
    cov["evaluations"] += len(h_units)
    for u in h_units:
        errs = h_errors.get(u.uid, [])
        if not errs:
            continue
        part, code, msg = errs[0]
        c = u.meta["case"]
        import re as _re2
        captured = sorted({w for w in ("Result", "Default", "Ok", "Err") for e in errs if _re2.search(r"\b%s\b" % w, e[2])}) or ["?"]
        rec = dict(kind="name-capture", what="generated code stops compiling when the enclosing module defines its own %s: it refers to that item instead of core's" % "/".join(captured), case=u.uid,
                   family=c.get("family", c["kind"]), program="\n".join(NO_STD_HEADER[:4]) + "\n" + unit_text(u), observed="%s: %s" % (code, msg[:300]), expected="no diagnostic",
                   replay_kind="compile", expect="accept", header="no_std")
        res.violations.append((dict(category="name-capture", shape="/".join(captured)), rec))
    # bare scope: every declaration on a native base, with its arbitrary-int and helper types written through a path (`arbitrary_int::u3`, `inner::E`; catalog.with_path_types),
    # in a module that imports no arbitrary_int name at all -- generated code must reach arbitrary_int by path, never through what the user happens to import
    b_units = []
    for u in units:
        c = u.meta["case"]
        if u.uid in clean and c["kind"] == "bitfield" and c["base"] == c["storage"]:
            cc = c if c.get("path_types") else catalog.with_path_types(c, c["id"])
            if any(f["kind"] == "uint" and not f["native"] and f.get("ty_text", "").split("::")[0] != "arbitrary_int" for f in cc["fields"]):
                continue        # an arbitrary-int type spelled in some other way (alias, literal text): leave the declaration as the user wrote it
            b_units.append(decl_unit(dict(cc, bare_scope=True), docs=True, uid=u.uid + "/bare-scope"))
    with build.Lock():
        b_errors, b_st = cm.outcomes(b_units, art, "c18b", header=NO_STD_HEADER, iterate=True)
    cov["bare_scope_programs"] = len(b_units)
    cov["bare_scope_clean"] = len(b_units) - len(b_errors)
    cov["evaluations"] += len(b_units)
    for u in b_units:
        errs = b_errors.get(u.uid, [])
        if not errs:
            continue
        part, code, msg = errs[0]
        c = u.meta["case"]
        rec = dict(kind="import-dependence", what="generated code stops compiling when the enclosing module does not import arbitrary_int's type names (the user wrote every such type through a path)", case=u.uid,
                   family=c.get("family", c["kind"]), program="\n".join(NO_STD_HEADER[:4]) + "\n" + unit_text(u), observed="%s: %s" % (code, msg[:300]), expected="no diagnostic",
                   replay_kind="compile", expect="accept", header="no_std")
        res.violations.append((dict(category="import-dependence", shape=str(code)), rec))
    bodies = set()
    shown = 0
    allowed = ALLOWED_HEADS | user_idents
    for line in p.stdout.decode(errors="replace").splitlines():
        if not line.startswith("{"):
            continue
        r = _json.loads(line)
        cov["expansions_scanned"] += 1
        if "parse_error" in r:
            raise Inconclusive("a dumped expansion does not parse: %s %s" % (r["file"], r["parse_error"]))
        cov["fns_scanned"] += r["fns"]
        cov["impls_scanned"] += r["impls"]
        for m in r["macros"]:
            cov["macros_invoked"][m] = cov["macros_invoked"].get(m, 0) + 1
        bodies.update(r["bodies"])
        if r["unsafe"]:
            cov["expansions_with_unsafe"] += 1
            rec = dict(kind="unsafe-in-expansion", what="the macro's output contains an unsafe construct", case=r["file"], observed=", ".join(sorted(set(r["unsafe"]))), expected="no unsafe code",
                       program=open(os.path.join(dump, r["file"])).read()[:6000], replay_kind="dump-scan")
            res.violations.append((dict(category="unsafe-in-expansion", shape=sorted(set(r["unsafe"]))[0]), rec))
        for h, n in r["heads"].items():
            cov["path_heads"][h if h in ALLOWED_HEADS else ("<user type>" if h in user_idents else h)] = cov["path_heads"].get(h if h in ALLOWED_HEADS else ("<user type>" if h in user_idents else h), 0) + n
            if h not in allowed:
                rec = dict(kind="foreign-path", what="the macro's output refers to something outside core and arbitrary_int", case=r["file"], observed="path starting with `%s`" % h,
                           expected="paths rooted in core, arbitrary_int, Self, or identifiers the user wrote", program=open(os.path.join(dump, r["file"])).read()[:6000], replay_kind="dump-scan")
                res.violations.append((dict(category="foreign-path", shape=h), rec))
        if shown < 2 and r["fns"] > 3:
            shown += 1
            cov["samples"].append(dict(expansion_file=r["file"], fns=r["fns"], impls=r["impls"], path_heads=r["heads"], macros=r["macros"], unsafe=r["unsafe"]))
    cov["accessor_body_shapes"] = len(bodies)
    cov["distinct_nontrivial"] = len(bodies)
    cov["rule"] = ("programs = documented, all-pub versions of the catalog's declarations compiled in one #![no_std] #![deny(missing_docs)] crate whose only dependencies are bitbybit and arbitrary_int, with the "
                   "verif_hooks dump on; every dumped expansion is parsed with syn and walked for unsafe constructs and path heads; distinct_nontrivial = distinct normalised method bodies (literals and "
                   "width-carrying identifiers replaced by placeholders) found in the scanned expansions, i.e. the distinct code shapes the macro emitted for this workload")
    for u in units[:: max(1, len(units) // 3)][:3]:
        cov["samples"].append(dict(case=u.uid, clean=u.uid in clean, program=unit_text(u)[:1200]))
    cov["repo_fingerprint"] = build.repo_fingerprint()
    props.write_evidence("C18", tier, seed, cov, time.time() - t0, len(res.violations), ASSUME_COMPILE + ["absence of unsafe is decided on the token stream the macro returned (hook), because rustc's unsafe_code lint does not fire inside proc-macro output",
                                                                                                         "the host target stands in for the embedded target of the repository's CI: name resolution in a #![no_std] crate is target independent"])
    if not res.violations and (cov["clean_programs"] == 0 or cov["expansions_scanned"] == 0):
        raise Inconclusive("nothing observed (programs=%d, expansions=%d)" % (cov["clean_programs"], cov["expansions_scanned"]))
    if not res.violations and cov["expansions_scanned"] < cov["clean_programs"]:
        raise Inconclusive("fewer expansions dumped (%d) than programs compiled (%d): the hook did not fire" % (cov["expansions_scanned"], cov["clean_programs"]))
    return res


# ------------------------------------------------------------------------------------------------
# C15: const context, identical results
# ------------------------------------------------------------------------------------------------

def check_c15(tier, seed):
    t0 = time.time()
    res = props.Result("C15")
    profiles = props.tier_profiles(tier)
    dropped = []
    with build.Lock():
        build.snapshot()
        ws = build.Workspace(tier, seed)
        ws.generate(["constf"])
        for prof in profiles:
            dropped += ws.build_resilient(["constf"], prof)
    reports = [ws.run("constf", prof, "C15") for prof in profiles]
    cov = dict(evaluations=0, distinct_nontrivial=0, rule="", samples=[], cases=0, const_items=0, operations={}, field_kinds={}, profiles={}, non_const_operations=[], exhaustive=False,
               dropped_cases_that_did_not_compile=[d for d in dropped if d["part"] not in ("probe", "const-items")][:20])
    seen = set()
    for d in dropped:
        # any error inside the const probe or inside the const items that evaluate it: the operation is not usable in a const context
        # (E0015 non-const call, E0080 const evaluation failed, E0658 unstable const feature, ...); errors in the declaration itself are C09's
        if d["part"] in ("probe", "const-items") or (d["part"] == "decl" and d.get("code") in ("E0015", "E0658", "E0744", "E0010", "E0492", "E0493")):
            # (the listed codes inside the declaration: the body of a generated `const fn` does something a const context does not allow)
            key = (d["case"], d["message"][:120])
            if key in seen:
                continue
            seen.add(key)
            cov["non_const_operations"].append(d)
            m = d["message"]
            what = "method" if "method" in m else "function"
            rec = dict(kind="not-const", what="a generated operation cannot be evaluated in a const context", case=d["case"], observed="%s: %s" % (d["code"], m[:300]), expected="usable in a const fn / const item",
                       part=d["part"], replay_kind="const-harness", tier=tier, seed=seed)
            import re
            mm = re.search(r"`([^`]*)`", m)
            shape = str(d["code"]) + " " + (re.sub(r"\d+", "N", mm.group(1).split("::")[-1]) if mm else "?")
            res.violations.append((dict(category="not-const", shape=shape), rec))
    nontriv = {}
    for r in reports:
        cov["evaluations"] += r["evaluations"]
        cov["profiles"][r["profile"]] = dict(comparisons=r["evaluations"], cases=r["cases"], const_items=r["const_items"], violations=r["violation_count"])
        nontriv[r["profile"]] = r["nontrivial"]
        if r is reports[0]:
            cov["cases"] = r["cases"]
            cov["const_items"] = r["const_items"]
            cov["operations"] = r["ops"]
            cov["field_kinds"] = r["field_kinds"]
            cov["samples"] = r["samples"]
        for v in r["violations"]:
            res.violations.append((None, dict(v, profile=r["profile"], tier=tier, seed=seed, replay_kind="const-harness")))
    cov["distinct_nontrivial"] = min(nontriv.values()) if nontriv else 0
    cov["rule"] = ("per case one generated `const fn probe(raw, values)` calls ZERO, DEFAULT, new_with_raw_value, raw_value, every getter, every with_, builder(), every builder step, build() (and both bitenum conversions); "
                   "`const` items force rustc's const evaluator to run it on boundary + seeded inputs, the same probe is run at run time on black_box'ed inputs, and both are compared with the reference register; "
                   "distinct_nontrivial = cases whose const results took >= 2 distinct values and agreed three ways; a non-const operation shows up as E0015 inside the probe")
    cov["repo_fingerprint"] = build.repo_fingerprint()
    props.write_evidence("C15", tier, seed, cov, time.time() - t0, len(res.violations), props.ASSUME_RUNTIME[:2] + ["rustc's const evaluator is the compile-time evaluator users get"])
    if not res.violations:
        if cov["evaluations"] == 0 or cov["distinct_nontrivial"] < 2:
            raise Inconclusive("nothing observed")
        need = ["getter", "with_", "builder chain + build()", "DEFAULT", "bitenum new_with_raw_value", "bitenum raw_value"]
        missing = [k for k in need if not cov["operations"].get(k)]
        if missing:
            raise Inconclusive("coverage floor missed: operations never evaluated in const context: %s" % missing)
    return res



# ------------------------------------------------------------------------------------------------
# thorough tier: C14 / C17 / C18 are evaluated with a dev-built and a release-built macro
# ------------------------------------------------------------------------------------------------

def _both_macro_profiles(prop, fn, tier, seed):
    import json
    profiles = ["macrodev"] if tier == "quick" else ["macrodev", "macrorel"]
    merged = props.Result(prop)
    covs = {}
    total_wall = 0.0
    last = None
    for mp in profiles:
        res = fn(tier, seed, mp)
        for sig, rec in res.violations:
            merged.violations.append((sig, dict(rec, macro_profile=mp)))
        merged.notes += res.notes
        with open(os.path.join(build.EVIDENCE, "%s.json" % prop)) as f:
            last = json.load(f)
        covs[mp] = last["coverage"]
        total_wall += last["wall_s"]
    if len(profiles) > 1:
        cov = dict(covs[profiles[0]])
        cov["evaluations"] = sum(c["evaluations"] for c in covs.values())
        cov["macro_profiles"] = profiles
        cov["per_macro_profile"] = {mp: {k: v for k, v in c.items() if isinstance(v, (int, float)) and not isinstance(v, bool)} for mp, c in covs.items()}
        props.write_evidence(prop, tier, seed, cov, total_wall, len(merged.violations), last.get("assumptions", []))
    return merged


def check_c14(tier, seed):
    return _both_macro_profiles("C14", _check_c14, tier, seed)


def check_c17(tier, seed):
    return _both_macro_profiles("C17", _check_c17, tier, seed)


def check_c18(tier, seed):
    return _both_macro_profiles("C18", _check_c18, tier, seed)
